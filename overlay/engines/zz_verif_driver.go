//go:build verif

// Compiled into package main of scratch copies only (build tag verif): registers the
// plain-SQLite "spatialite" driver stub so that the real texel binary can open
// GeoPackages in a sandbox without libspatialite. Never part of /repo.
package main

import _ "github.com/pdok/texel/internal/spatialstub"
