//go:build verif && go1.25

// gpkgsim: the real GeoPackage target writer (gpkg.TargetGeopackage on real SQLite files
// in tmpfs, go-spatial's gpkg package, database/sql) inside the simulator. Page size is
// a per-run randomised knob; the feature stream is produced by a simulated reader, either
// straight into one writer ("direct") or through the real ProcessFeatures pipeline into
// 1..3 concurrently flushing writers ("pipeline"). The written files are read back with
// the harness's own decoder and compared with a reference model. Decides C12.
package gpkg_test

import (
	"encoding/json"
	"fmt"
	"log"
	"math"
	"os"
	"path/filepath"
	"sort"
	"strconv"
	"strings"
	"testing"

	"github.com/go-spatial/geom"
	"github.com/pdok/texel/internal/gpkgh"
	"github.com/pdok/texel/internal/simh"
	"github.com/pdok/texel/internal/simrt"
	_ "github.com/pdok/texel/internal/spatialstub"
	"github.com/pdok/texel/processing"
	"github.com/pdok/texel/processing/gpkg"
)

type gwork struct {
	Mode     string      `json:"mode"` // direct | pipeline
	PageSize int         `json:"page_size"`
	Targets  []int       `json:"targets"` // pipeline mode: tile matrix ids
	SRS      gpkgh.SRS   `json:"srs"`
	Table    gpkgh.Table `json:"table"` // schema + the rows handed to the writer(s)
	// More: further tables written one after another through the same target handles,
	// the way main.go switches target.Table between calls of ProcessFeatures
	More []gpkgh.Table `json:"more_tables,omitempty"`
	// SpareCap: the simulated reader builds its column slices by appending (as the real
	// reader does), so they may carry spare capacity
	SpareCap bool   `json:"spare_cap"`
	Relation string `json:"relation"` // how count relates to page size (probe)
}

type replayFile struct {
	Property     string          `json:"property"`
	Engine       string          `json:"engine"`
	Seed         uint64          `json:"seed"`
	Workload     gwork           `json:"workload"`
	Faults       simrt.FaultPlan `json:"faults"`
	MapPolicy    string          `json:"map_policy"`
	MapSeed      uint64          `json:"map_seed"`
	Tape         []uint32        `json:"tape"`
	Violation    *simh.Violation `json:"violation,omitempty"`
	ShrinkArrays []string        `json:"shrink_arrays"`
	ShrinkInts   []string        `json:"shrink_ints"`
	Trace        []string        `json:"trace,omitempty"`
	Prelude      int             `json:"prelude,omitempty"` // preceding seeds to run first
}

var pragmaCols = map[string]bool{"cid": true, "name": true, "type": true, "notnull": true, "dflt_value": true, "pk": true,
	"oid": true, "rowid": true, "_rowid_": true, "arg": true, "schema": true} // incl. the hidden columns and rowid aliases of the table-valued function

// column and table names that are SQL keywords are legal (quoted) in a GeoPackage
var sqlKeywords = []string{"order", "group", "select", "table", "index", "else", "from", "where", "default", "check", "primary", "unique", "values", "key", "to", "as", "by", "in", "is", "not", "null", "on", "or", "and", "all", "add", "set", "row", "end", "case", "when", "then", "limit", "offset", "union", "join", "left", "exists", "between", "like", "desc", "asc"}

func ident(r *simrt.RNG, used map[string]bool) string {
	first := "abcdefghijklmnopqrstuvwxyz"
	rest := "abcdefghijklmnopqrstuvwxyz0123456789_"
	if r.Chance(0.25) { // mixed case now and then
		first += "ABCDEFGHIJKLMNOPQRSTUVWXYZ"
		rest += "ABCDEFGHIJKLMNOPQRSTUVWXYZ"
	}
	for {
		if r.Chance(0.08) {
			k := sqlKeywords[r.Intn(len(sqlKeywords))]
			if !used[k] {
				used[k] = true
				return k
			}
		}
		n := 1 + r.Intn(10)
		b := []byte{first[r.Intn(len(first))]}
		for i := 1; i < n; i++ {
			b = append(b, rest[r.Intn(len(rest))])
		}
		s := string(b)
		if len(s) < 2 {
			s += "_c"
		}
		// (cid, name, type, notnull, dflt_value, pk: go-spatial looks the primary key up with
		// pragma_table_info(("<table>")), where such a table name resolves to a column)
		if used[strings.ToLower(s)] || pragmaCols[strings.ToLower(s)] || strings.HasPrefix(strings.ToLower(s), "gpkg_") || strings.HasPrefix(strings.ToLower(s), "rtree_") || strings.HasPrefix(strings.ToLower(s), "sqlite_") {
			continue
		}
		used[strings.ToLower(s)] = true // SQLite identifiers are case-insensitive
		return s
	}
}

var geomTypes = []string{gpkgh.TPolygon, gpkgh.TMultiPolygon, gpkgh.TPoint, gpkgh.TLineString, gpkgh.TMultiPoint, gpkgh.TMultiLineString, gpkgh.TCollection, gpkgh.TGeometry}

var concreteTypes = []string{gpkgh.TPolygon, gpkgh.TMultiPolygon, gpkgh.TPoint, gpkgh.TLineString, gpkgh.TMultiPoint, gpkgh.TMultiLineString, gpkgh.TCollection}

func genSRS(r *simrt.RNG) gpkgh.SRS {
	switch r.Intn(4) {
	case 0:
		return gpkgh.SRS{Name: "Amersfoort / RD New", ID: 28992, Org: "EPSG", OrgID: 28992, Definition: `PROJCS["Amersfoort / RD New"]`, Description: "rd"}
	case 1:
		return gpkgh.SRS{Name: "made up", ID: 900000 + r.Intn(1000), Org: "NONE", OrgID: 7, Definition: "undefined", Description: ""}
	case 2:
		// one the library knows itself; the source's own row must still win or be identical
		return gpkgh.SRS{Name: "WGS 84 source flavour", ID: 4326, Org: "epsg", OrgID: 4326, Definition: `GEOGCS["WGS 84"]`, Description: "from the source"}
	}
	return gpkgh.SRS{Name: "WebMercator src", ID: 3857, Org: "epsg", OrgID: 3857, Definition: `PROJCS["WGS 84 / Pseudo-Mercator"]`, Description: "src"}
}

func genVal(r *simrt.RNG, typ string, notnull bool, row int) gpkgh.Val {
	if !notnull && r.Chance(0.2) {
		return gpkgh.Val{}
	}
	switch typ {
	case "INTEGER", "MEDIUMINT", "INT", "BIGINT", "NUMERIC", "DECIMAL": // (NUMERIC affinity: integers stay integers)
		if r.Chance(0.1) {
			return gpkgh.IntVal(int64(r.Uint64()>>2) - (1 << 61)) // beyond 2^53
		}
		if r.Chance(0.03) {
			return gpkgh.IntVal([]int64{math.MaxInt64, math.MinInt64, 0, -1}[r.Intn(4)])
		}
		return gpkgh.IntVal(int64(r.Uint64()%2000001) - 1000000)
	case "REAL", "DOUBLE", "FLOAT", "DOUBLE PRECISION":
		if r.Chance(0.15) {
			return gpkgh.FloatVal(float64(int64(r.Uint64()%2001) - 1000)) // a whole number stays REAL
		}
		if r.Chance(0.03) {
			return gpkgh.FloatVal([]float64{1e308, -1e308, 5e-324, 0.1}[r.Intn(4)]) // (SQLite does not keep the sign of -0.0)
		}
		return gpkgh.FloatVal(float64(int64(r.Uint64()%2000001)-1000000) / 128)
	}
	switch r.Intn(12) {
	case 0:
		return gpkgh.TextVal("")
	case 1:
		return gpkgh.TextVal(strconv.Itoa(r.Intn(100000)))
	case 2:
		return gpkgh.TextVal("äöü € 漢字 it's \"quoted\"\nsecond line\t" + strconv.Itoa(row))
	case 3:
		return gpkgh.TextVal(strings.Repeat("long text ", 100+r.Intn(900)))
	}
	return gpkgh.TextVal(fmt.Sprintf("t%d-%x", row, r.Uint64()%65536))
}

func genGeom(r *simrt.RNG, typ string, allowEmpty bool, base float64) *gpkgh.G {
	pt := func() [2]float64 {
		return [2]float64{base + float64(r.Intn(100000))/8, base/2 + float64(r.Intn(100000))/8}
	}
	pts := func(n int) [][2]float64 {
		out := make([][2]float64, 0, n)
		for i := 0; i < n; i++ {
			out = append(out, pt())
		}
		return out
	}
	empty := allowEmpty && r.Chance(0.12)
	if typ == gpkgh.TGeometry { // a GEOMETRY column holds any type
		typ = concreteTypes[r.Intn(len(concreteTypes))]
	}
	g := &gpkgh.G{T: typ}
	if empty && r.Chance(0.3) {
		// empty although it has members: a collection of an empty point, a multilinestring of
		// an empty linestring, a multipolygon of a polygon without rings
		switch typ {
		case gpkgh.TCollection:
			g.C = []*gpkgh.G{{T: gpkgh.TPoint, P: [][2]float64{}}}
			return g
		case gpkgh.TMultiLineString:
			g.L = [][][2]float64{{}}
			return g
		case gpkgh.TMultiPolygon:
			g.M = [][][][2]float64{{}}
			return g
		}
	}
	switch typ {
	case gpkgh.TCollection:
		if !empty {
			for i, n := 0, 1+r.Intn(3); i < n; i++ {
				member := []string{gpkgh.TPoint, gpkgh.TLineString, gpkgh.TPolygon}[r.Intn(3)]
				g.C = append(g.C, genGeom(r, member, false, base))
			}
		}
	case gpkgh.TPoint:
		g.P = pts(1)
		if empty {
			g.P = [][2]float64{} // POINT EMPTY
		}
	case gpkgh.TLineString:
		if empty {
			g.P = [][2]float64{}
		} else {
			g.P = pts(2 + r.Intn(4))
		}
	case gpkgh.TMultiPoint:
		if empty {
			g.P = [][2]float64{}
		} else {
			g.P = pts(1 + r.Intn(4))
		}
	case gpkgh.TPolygon:
		if empty {
			g.L = [][][2]float64{}
		} else {
			nr := 1 + r.Intn(2)
			for i := 0; i < nr; i++ {
				// rings of one and two vertices are what keep-points-and-lines produces
				g.L = append(g.L, pts(1+r.Intn(6)))
			}
		}
	case gpkgh.TMultiLineString:
		if empty {
			g.L = [][][2]float64{}
		} else {
			for i := 0; i < 1+r.Intn(3); i++ {
				g.L = append(g.L, pts(2+r.Intn(3)))
			}
		}
	case gpkgh.TMultiPolygon:
		if empty {
			g.M = [][][][2]float64{}
		} else {
			for i := 0; i < 1+r.Intn(3); i++ {
				poly := [][][2]float64{pts(1 + r.Intn(5))}
				if r.Chance(0.3) {
					poly = append(poly, pts(3))
				}
				g.M = append(g.M, poly)
			}
		}
	}
	return g
}

// genExtraTable: a second table with its own schema and geometry type.
// With like != nil it is sometimes a twin of that table: same column names and types, same
// geometry column and type, another name and other rows (primary keys disjoint or not).
func genExtraTable(r *simrt.RNG, used map[string]bool, srs gpkgh.SRS, p int, k int, like *gpkgh.Table) gpkgh.Table {
	t := gpkgh.Table{Name: ident(r, used), Spatial: true, SRSID: srs.ID}
	fid := int64(0)
	if like != nil && r.Chance(0.35) {
		t.GeomType, t.GeomCol = like.GeomType, like.GeomCol
		t.Columns = append([]gpkgh.Column(nil), like.Columns...)
		if r.Chance(0.6) {
			pk := 0
			for _, col := range like.Columns {
				if col.Name == like.GeomCol {
					continue
				}
				if col.PK {
					for _, row := range like.Rows {
						if v := row.Vals[pk].I; v != nil && *v >= fid {
							fid = *v + 1
						}
					}
				}
				pk++
			}
		}
	} else {
		t.GeomType = geomTypes[r.Intn(len(geomTypes))]
		t.GeomCol = ident(r, used)
		t.Columns = []gpkgh.Column{{Name: ident(r, used), Type: "INTEGER", PK: true}}
		for i, n := 0, r.Intn(3); i < n; i++ {
			t.Columns = append(t.Columns, gpkgh.Column{Name: ident(r, used), Type: []string{"INTEGER", "REAL", "TEXT"}[r.Intn(3)]})
		}
		pos := 1 + r.Intn(len(t.Columns))
		t.Columns = append(t.Columns[:pos], append([]gpkgh.Column{{Name: t.GeomCol, Type: t.GeomType}}, t.Columns[pos:]...)...)
	}
	if p > 1000 {
		p = 10 // (a page size meaning "everything in one transaction": keep the table small)
	}
	c := r.Intn(2*p + 2)
	base := float64(1000000*k + r.Intn(500000))
	if r.Chance(0.3) {
		base = -base - 100000
	}
	fid += int64(1 + r.Intn(50))
	for i := 0; i < c; i++ {
		var row gpkgh.Row
		for _, col := range t.Columns {
			if col.Name == t.GeomCol {
				continue
			}
			if col.PK {
				row.Vals = append(row.Vals, gpkgh.IntVal(fid))
				fid += int64(1 + r.Intn(3))
				continue
			}
			row.Vals = append(row.Vals, genVal(r, strings.ToUpper(strings.Split(col.Type, "(")[0]), col.NotNull, i))
		}
		row.Geom = genGeom(r, t.GeomType, true, base)
		switch row.Geom.T {
		case gpkgh.TPolygon:
			if len(row.Geom.L) > 0 && len(row.Geom.L[0]) > 0 {
				row.Geom.L[0][0] = [2]float64{base + float64(i*8)*2, base/2 + 0.5}
			}
		case gpkgh.TMultiPolygon:
			for pi := range row.Geom.M {
				if len(row.Geom.M[pi]) > 0 && len(row.Geom.M[pi][0]) > 0 {
					row.Geom.M[pi][0][0] = [2]float64{base + float64(i*8+pi)*2, base/2 + 0.5}
				}
			}
		}
		t.Rows = append(t.Rows, row)
	}
	return t
}

func allTables(w *gwork) []*gpkgh.Table {
	out := []*gpkgh.Table{&w.Table}
	for i := range w.More {
		out = append(out, &w.More[i])
	}
	return out
}

func genWork(seed uint64) (gwork, simrt.FaultPlan, simrt.MapPolicy, uint64) {
	r := simrt.NewRNG(seed, "gpkgsim-workload")
	var w gwork
	w.Mode = "direct"
	if r.Chance(0.35) {
		w.Mode = "pipeline"
		n := 1 + r.Intn(3)
		w.Targets = r.Perm(12)[:n]
	}
	w.SRS = genSRS(r)
	used := map[string]bool{}
	t := gpkgh.Table{Name: ident(r, used), Spatial: true, SRSID: w.SRS.ID}
	t.GeomType = geomTypes[r.Intn(len(geomTypes))]
	t.GeomCol = ident(r, used)
	pk := gpkgh.Column{Name: ident(r, used), Type: "INTEGER", PK: true, NotNull: r.Chance(0.5), AutoInc: r.Chance(0.4)}
	var attrs []gpkgh.Column
	nattr := r.Intn(5)
	if r.Chance(0.04) {
		nattr = 30 + r.Intn(50) // a wide table: statements with many bound parameters
	}
	for i, n := 0, nattr; i < n; i++ {
		typ := []string{"INTEGER", "REAL", "TEXT", "DOUBLE", "MEDIUMINT", "TEXT(20)", "Integer", "text", "Real", "DOUBLE PRECISION", "VARCHAR(10)", "BIGINT", "NUMERIC", "DECIMAL(10,2)"}[r.Intn(14)]
		name := ident(r, used)
		if r.Chance(0.03) {
			// column names with characters that need more than a pair of quotes
			k := 1 + r.Intn(len(name)-1)
			name = name[:k] + []string{"\\", "\t", "\u00a0", "\"", " ", "'", "-", "é", "%", "?"}[r.Intn(10)] + name[k:]
			used[strings.ToLower(name)] = true
		}
		attrs = append(attrs, gpkgh.Column{Name: name, Type: typ, NotNull: r.Chance(0.3)})
	}
	geomNotNull := r.Chance(0.3)
	gcol := gpkgh.Column{Name: t.GeomCol, Type: t.GeomType, NotNull: geomNotNull}
	// the primary key is usually first, not always; the geometry column anywhere
	cols := append([]gpkgh.Column{pk}, attrs...)
	if len(attrs) > 0 && r.Chance(0.25) {
		k := 1 + r.Intn(len(attrs))
		cols[0], cols[k] = cols[k], cols[0]
	}
	pos := r.Intn(len(cols) + 1)
	t.Columns = append(t.Columns, cols[:pos]...)
	t.Columns = append(t.Columns, gcol)
	t.Columns = append(t.Columns, cols[pos:]...)
	nullGeoms := !geomNotNull && r.Chance(0.3)

	p := 1 + r.Intn(40)
	if r.Chance(0.25) {
		p = 1 + r.Intn(4)
	}
	if r.Chance(0.004) {
		p = []int{100, 250, 500, 1000}[r.Intn(4)] // the default page size and other round ones (rarely: up to 3001 rows)
	}
	if nattr >= 30 && r.Chance(0.15) {
		p = []int{500, 1000}[r.Intn(2)] // a wide table and a large page: limits on bound parameters are products of the two
	}
	hugePage := r.Chance(0.005)
	if hugePage {
		p = []int{1 << 44, 1 << 50, 1 << 62}[r.Intn(3)] // "everything in one transaction"
	}
	var c int
	pReal := p
	if hugePage {
		p = 1000 // (for the arithmetic of the switch below only; overridden afterwards)
	}
	switch k := r.Intn(9); k {
	case 0:
		c, w.Relation = 0, "count=0"
	case 1:
		c, w.Relation = r.Intn(p), "count<page"
	case 2:
		c, w.Relation = p, "count=page"
	case 3:
		c, w.Relation = p*(1+r.Intn(3)), "count=k*page"
	case 4:
		c, w.Relation = p*(1+r.Intn(3))+1, "count=k*page+1"
	case 5:
		c, w.Relation = p*(1+r.Intn(3))-1, "count=k*page-1"
	case 6:
		c, w.Relation = 3*p+1, "count=3*page+1"
	default:
		c, w.Relation = r.Intn(3*p+2), "count=any"
	}
	if hugePage {
		p = pReal
		c, w.Relation = r.Intn(25), "count<page"
	}
	if c > 3*p+1 {
		c = 3*p + 1
	}
	if c < 0 {
		c = 0
	}
	w.PageSize = p
	base := float64(r.Intn(500000))
	switch x := r.Intn(20); {
	case x < 5: // every coordinate negative (west of Greenwich, south of the equator)
		base = -float64(100000 + r.Intn(500000))
	case x < 7: // around the origin, both signs
		base = -float64(2000 + r.Intn(8000))
	}
	fid := int64(1 + r.Intn(1000))
	allEmptyPage := r.Chance(0.08)
	for i := 0; i < c; i++ {
		var row gpkgh.Row
		for _, col := range t.Columns {
			if col.Name == t.GeomCol {
				continue
			}
			if col.PK {
				row.Vals = append(row.Vals, gpkgh.IntVal(fid))
				fid += int64(1 + r.Intn(3))
				continue
			}
			row.Vals = append(row.Vals, genVal(r, strings.ToUpper(strings.Split(col.Type, "(")[0]), col.NotNull, i))
		}
		row.Geom = genGeom(r, t.GeomType, true, base)
		if nullGeoms && r.Chance(0.2) {
			row.Geom = nil // a feature without geometry
		}
		if allEmptyPage && i < p && row.Geom != nil {
			row.Geom = genGeom(simrt.NewRNG(1, "e"), t.GeomType, false, 0)
			switch t.GeomType {
			case gpkgh.TPoint, gpkgh.TLineString, gpkgh.TMultiPoint:
				row.Geom.P = [][2]float64{}
			case gpkgh.TPolygon, gpkgh.TMultiLineString:
				row.Geom.L = [][][2]float64{}
			case gpkgh.TMultiPolygon:
				row.Geom.M = [][][][2]float64{}
			case gpkgh.TCollection, gpkgh.TGeometry:
				row.Geom = &gpkgh.G{T: gpkgh.TCollection}
			}
		}
		// polygon parts get a unique first vertex, so that the pipeline-mode snap stub can
		// tell which (row, part) it is asked about
		gt := ""
		if row.Geom != nil {
			gt = row.Geom.T
		}
		switch gt {
		case gpkgh.TPolygon:
			if len(row.Geom.L) > 0 && len(row.Geom.L[0]) > 0 {
				row.Geom.L[0][0] = [2]float64{base + float64(i*8)*2, base/2 + 0.5}
			}
		case gpkgh.TMultiPolygon:
			for pi := range row.Geom.M {
				if len(row.Geom.M[pi]) > 0 && len(row.Geom.M[pi][0]) > 0 {
					row.Geom.M[pi][0][0] = [2]float64{base + float64(i*8+pi)*2, base/2 + 0.5}
				}
			}
		}
		t.Rows = append(t.Rows, row)
	}
	w.Table = t
	if r.Chance(0.3) {
		w.More = append(w.More, genExtraTable(r, used, w.SRS, p, 1, &w.Table))
	}
	w.SpareCap = r.Chance(0.5)

	fr := simrt.NewRNG(seed, "gpkgsim-faults")
	var fp simrt.FaultPlan
	fp.Policy = simrt.Policy(fr.Intn(4))
	fp.StallMax, fp.LateStartMax, fp.BurstMax = 2+fr.Intn(20), 2+fr.Intn(20), 1+fr.Intn(6)
	fp.SlowFrac = 0.3
	fp.PCTDepth = 1 + fr.Intn(3)
	if fr.Chance(0.4) {
		fp.StallRate = 0.05 * fr.Float()
	}
	if fr.Chance(0.4) {
		fp.LateStartRate = 0.4 * fr.Float()
	}
	if fr.Chance(0.3) {
		fp.BurstRate = 0.2 * fr.Float()
	}
	mp := simrt.MapPolicy(1 + fr.Intn(5))
	return w, fp, mp, fr.Uint64()
}

// ------------------------------------------------------------------------------------

type feat struct {
	cols []interface{}
	g    geom.Geometry
}

func (f *feat) Columns() []interface{}  { return f.cols }
func (f *feat) Geometry() geom.Geometry { return f.g }

func featOf(row gpkgh.Row, spare bool) *feat {
	var cols []interface{}
	if spare {
		for _, v := range row.Vals { // built by append: may carry spare capacity, like the real reader's
			cols = append(cols, v.Go())
		}
	} else {
		cols = make([]interface{}, 0, len(row.Vals))
		for _, v := range row.Vals {
			cols = append(cols, v.Go())
		}
	}
	if row.Geom == nil {
		return &feat{cols: cols, g: nil}
	}
	return &feat{cols: cols, g: row.Geom.ToGeom()}
}

type simSource struct{ feats []*feat }

func (s *simSource) ReadFeatures(ch chan<- processing.Feature) {
	for _, f := range s.feats {
		simrt.YieldAs("src", "src:send")
		ch <- f
	}
	simrt.YieldAs("src", "src:close")
	close(ch)
}

// keepFor decides in pipeline mode whether (row, tile matrix) produces geometry, and
// shiftFor makes each tile matrix's geometry distinguishable.
func keepFor(rowIdx, tm int) bool { return (rowIdx*7+tm*3)%5 != 0 }

func shifted(p geom.Polygon, tm int) geom.Polygon {
	out := make(geom.Polygon, len(p))
	for i, r := range p {
		out[i] = make([][2]float64, len(r))
		for j, c := range r {
			out[i][j] = [2]float64{c[0] + float64(tm)*0.125, c[1]}
		}
	}
	return out
}

// expectedFor builds the reference model of one target file.
func expectedFor(t *gpkgh.Table, tm int, pipeline bool) *gpkgh.ExpTable {
	e := &gpkgh.ExpTable{Name: t.Name, Columns: t.Columns, GeomCol: t.GeomCol, GeomType: t.GeomType, SRSID: t.SRSID}
	for i, row := range t.Rows {
		er := gpkgh.ExpRow{Vals: row.Vals, Geom: row.Geom, NullGeom: row.Geom == nil, Label: fmt.Sprintf("feature %d", i)}
		if pipeline && row.Geom != nil && (row.Geom.T == gpkgh.TPolygon || row.Geom.T == gpkgh.TMultiPolygon) {
			// through the pipeline: per part, kept (shifted) or dropped for this tile matrix
			var polys [][][][2]float64
			switch row.Geom.T {
			case gpkgh.TPolygon:
				if len(row.Geom.L) > 0 && len(row.Geom.L[0]) > 0 && keepFor(i, tm) {
					polys = append(polys, shifted(row.Geom.L, tm))
				}
			case gpkgh.TMultiPolygon:
				for pi, p := range row.Geom.M {
					if len(p) > 0 && len(p[0]) > 0 && keepFor(i+pi, tm) {
						polys = append(polys, shifted(p, tm))
					}
				}
			}
			if len(polys) == 0 {
				continue
			}
			er.Geom, er.Polys = nil, polys
		}
		e.Rows = append(e.Rows, er)
	}
	return e
}

type runResult struct {
	sim       simrt.Result
	violation *simh.Violation
	probes    simh.Counter
	nontriv   bool
	files     int
}

var tapeSink func(uint32)
var onFatal func(v *simh.Violation)

func runOne(t *testing.T, w *gwork, fp simrt.FaultPlan, mp simrt.MapPolicy, mapSeed, seed uint64, tape []uint32, replay, trace bool, dir string) (rr runResult) {
	rr.probes = simh.Counter{}
	os.RemoveAll(dir)
	if err := os.MkdirAll(dir, 0o755); err != nil {
		simh.Fatalf("%v", err)
	}
	defer os.RemoveAll(dir)
	srcPath := filepath.Join(dir, "source.gpkg")
	// the source file carries the schema (and the rows, unused here: the reader is simulated)
	src := gpkgh.Source{SRS: []gpkgh.SRS{w.SRS}, Tables: append([]gpkgh.Table{w.Table}, w.More...)}
	if err := gpkgh.WriteSource(srcPath, &src); err != nil {
		simh.Fatalf("writing the source GeoPackage: %v", err)
	}
	pipeline := w.Mode == "pipeline"
	ids := []int{0}
	if pipeline {
		ids = w.Targets
	}
	paths := map[int]string{}
	for _, id := range ids {
		paths[id] = filepath.Join(dir, fmt.Sprintf("target_%d.gpkg", id))
	}
	tbls := allTables(w)
	featsOf := map[string][]*feat{}
	total := 0
	for _, tb := range tbls {
		for _, row := range tb.Rows {
			featsOf[tb.Name] = append(featsOf[tb.Name], featOf(row, w.SpareCap))
			total++
		}
	}
	simrt.SetMapOrder(mp, mapSeed)
	opt := simrt.Options{Seed: seed, Faults: fp, Tape: tape, Replay: replay, Trace: trace, TapeSink: tapeSink, MaxSteps: 4000 + 400*(total+2*len(tbls))*(len(ids)+1)}
	var leak string
	rr.sim, leak = simh.RunBubble(t, opt, func() {
		source := gpkg.SourceGeopackage{}
		source.Init(srcPath)
		tables := source.GetTableInfo()
		source.Close()
		if len(tables) != len(tbls) {
			panic(fmt.Sprintf("gpkgsim: source reports %d tables, %d written", len(tables), len(tbls)))
		}
		targets := map[int]*gpkg.TargetGeopackage{}
		for _, id := range ids {
			tg := &gpkg.TargetGeopackage{}
			tg.Init(paths[id], w.PageSize)
			if err := tg.CreateTables(tables); err != nil {
				panic(fmt.Sprintf("gpkgsim: CreateTables: %v", err))
			}
			targets[id] = tg
		}
		// tables one after another through the same handles, as main.go does
		for _, table := range tables {
			var cur *gpkgh.Table
			for _, tb := range tbls {
				if tb.Name == table.Name {
					cur = tb
				}
			}
			if cur == nil {
				panic("gpkgsim: source reports unknown table " + table.Name)
			}
			feats := featsOf[cur.Name]
			for _, id := range ids {
				targets[id].Table = table
			}
			if !pipeline {
				ch := make(chan processing.Feature)
				go (&simSource{feats: feats}).ReadFeatures(ch)
				targets[0].WriteFeatures(ch)
			} else {
				pt := map[int]processing.Target{}
				for id, tg := range targets {
					pt[id] = tg
				}
				rowIdx := map[*feat]int{}
				for i, f := range feats {
					rowIdx[f] = i
				}
				// the snap stub needs to know which row a polygon belongs to: rows carry
				// distinct coordinates, so look the polygon up by its first vertex
				byFirst := map[[2]float64][2]int{}
				for i, row := range cur.Rows {
					if row.Geom == nil {
						continue
					}
					switch row.Geom.T {
					case gpkgh.TPolygon:
						if len(row.Geom.L) > 0 && len(row.Geom.L[0]) > 0 {
							byFirst[row.Geom.L[0][0]] = [2]int{i, 0}
						}
					case gpkgh.TMultiPolygon:
						for pi, p := range row.Geom.M {
							if len(p) > 0 && len(p[0]) > 0 {
								byFirst[p[0][0]] = [2]int{i, pi}
							}
						}
					}
				}
				processing.ProcessFeatures(&simSource{feats: feats}, pt, func(p geom.Polygon, tmIDs []int) map[int][]geom.Polygon {
					out := map[int][]geom.Polygon{}
					if len(p) == 0 || len(p[0]) == 0 {
						return out
					}
					k, ok := byFirst[p[0][0]]
					if !ok {
						return out
					}
					for _, tm := range tmIDs {
						if keepFor(k[0]+k[1], tm) {
							out[tm] = []geom.Polygon{shifted(p, tm)}
						}
					}
					return out
				})
			}
		}
		for _, id := range ids {
			targets[id].Close()
		}
	}, func(stacks string) {
		// not a C12 matter; but a goroutine on a timer makes the bubble impossible to leave
		if (strings.Contains(stacks, "[sleep") || strings.Contains(stacks, "time.")) && onFatal != nil {
			onFatal(nil)
		}
	})
	simrt.SetMapOrder(simrt.MapNative, 0)
	switch {
	case rr.sim.Outcome == "deadlock":
		rr.violation = &simh.Violation{Class: "writer/deadlock", Message: rr.sim.Detail + "; " + strings.Join(rr.sim.Blocked, "; ")}
	case rr.sim.Outcome == "livelock":
		rr.violation = &simh.Violation{Class: "writer/livelock", Message: rr.sim.Detail}
	case rr.sim.Outcome != "ok":
		simh.Fatalf("gpkgsim: simulator outcome %q %s", rr.sim.Outcome, rr.sim.Detail)
	case leak != "":
		// goroutines still alive after the targets were closed are not a matter of C12
		// (which speaks about the written file); counted, not reported
		rr.probes.Inc("goroutines-alive-after-close(not-a-C12-matter)")
	}
	if rr.violation != nil {
		return rr
	}
	// --- read every target back and compare with the model
	sort.Ints(ids)
	for _, id := range ids {
		d, err := gpkgh.ReadFile(paths[id])
		if err != nil {
			rr.violation = &simh.Violation{Class: "file/unreadable", Message: fmt.Sprintf("target %d: %v", id, err)}
			return rr
		}
		rr.files++
		for _, tb := range tbls {
			exp := expectedFor(tb, id, pipeline)
			if m := gpkgh.CheckTable(d, exp, &w.SRS); m != nil {
				rr.violation = &simh.Violation{Class: "file/" + m.Class, Message: fmt.Sprintf("target %d (page size %d, %d tables, %d features of this table expected, %s): %s", id, w.PageSize, len(tbls), len(exp.Rows), w.Relation, m.Msg)}
				return rr
			}
		}
		if len(d.Tables) != len(tbls) {
			// (tables of the writer's own, not registered as feature tables, are its business)
			rr.violation = &simh.Violation{Class: "file/extra-tables", Message: fmt.Sprintf("target %d registers %d feature tables, %d were created (tables: %v)", id, len(d.Tables), len(tbls), d.UserTables)}
			return rr
		}
	}
	// probes
	p := rr.probes
	p.Inc("mode=" + w.Mode)
	p.Inc("relation:" + w.Relation)
	p.Inc("geomtype=" + w.Table.GeomType)
	if w.PageSize == 1 {
		p.Inc("page-size-1")
	}
	c := len(w.Table.Rows)
	if c > 0 && c%w.PageSize == 0 {
		p.Inc("final-flush-empty")
	}
	emptyFirst, allEmptyPage, nullSeen := false, false, false
	for i := 0; i < c; i += w.PageSize {
		hi := i + w.PageSize
		if hi > c {
			hi = c
		}
		if g := w.Table.Rows[i].Geom; g != nil && g.Empty() {
			emptyFirst = true
		}
		all := true
		for _, r := range w.Table.Rows[i:hi] {
			if r.Geom == nil || !r.Geom.Empty() {
				all = false
			}
			if r.Geom == nil {
				nullSeen = true
			}
		}
		if all {
			allEmptyPage = true
		}
	}
	if emptyFirst {
		p.Inc("empty-geometry-first-in-a-page")
	}
	if allEmptyPage {
		p.Inc("page-of-only-empty-geometries")
	}
	if nullSeen {
		p.Inc("feature-without-geometry(NULL)")
	}
	if pipeline && len(ids) > 1 {
		p.Inc("several-writers-flushing-concurrently")
	}
	if len(tbls) > 1 {
		p.Inc("two-tables-through-the-same-target-handle")
	}
	rr.nontriv = c > 0
	return rr
}

// ------------------------------------------------------------------------------------

func TestVerifGpkgsim(t *testing.T) {
	job, err := simh.LoadJob()
	if err != nil {
		t.Fatal(err)
	}
	if job == nil {
		t.Skip("no VERIF_JOB")
	}
	out, err := simh.OpenOut(job.Out)
	if err != nil {
		t.Fatal(err)
	}
	defer out.Close()
	runLog := simh.NewRunLog(job.Out + ".log")
	log.SetOutput(runLog)
	// all simulated runs of this process in ONE bubble (see simh.InBubble)
	simh.InBubble(t, func() { gpkgsimMain(t, job, out, runLog) })
}

func gpkgsimMain(t *testing.T, job *simh.Job, out *simh.Out, runLog *simh.RunLog) {
	switch job.Mode {
	case "explore", "selftest":
		sum := simh.NewSummary("gpkgsim", job.Mode, job.SeedLo)
		digests := simh.NewDigestSet(2000000)
		dl := simh.NewDeadline(job.BudgetS)
		t0 := simh.RealNow()
		for seed := job.SeedLo; seed < job.SeedHi; seed++ {
			if dl.Expired() {
				break
			}
			out.Line(map[string]interface{}{"t": "start", "seed": seed})
			runLog.Reset()
			w, fp, mp, mapSeed := genWork(seed)
			sink := simh.StreamReplay(job, func() interface{} {
				return replayFile{Property: job.Property, Engine: "gpkgsim", Seed: seed, Workload: w, Faults: fp, MapPolicy: mp.String(), MapSeed: mapSeed,
					ShrinkArrays: []string{"workload.more_tables", "workload.table.rows", "workload.more_tables.*.rows", "workload.targets"}, ShrinkInts: []string{"workload.page_size"}}
			})
			tapeSink = sink
			onFatal = func(v *simh.Violation) {
				if v != nil {
					rf := replayFile{Property: job.Property, Engine: "gpkgsim", Seed: seed, Workload: w, Faults: fp, MapPolicy: mp.String(), MapSeed: mapSeed,
						Violation: v, ShrinkArrays: []string{"workload.more_tables", "workload.table.rows", "workload.more_tables.*.rows", "workload.targets"}, ShrinkInts: []string{"workload.page_size"}}
					out.Line(map[string]interface{}{"t": "violation", "seed": seed, "replay": rf})
				} else {
					sum.SeedNext = seed // this seed's files were not compared
					sum.Notes = append(sum.Notes, "engine process ended early: a goroutine of the writer stays alive on a timer after Close")
					simh.WriteDigests(job.Out+".digests", digests.Slice())
					out.Line(sum)
				}
				os.Exit(0)
			}
			wantSample := len(sum.Samples) < job.Samples && len(w.Table.Rows) >= 2 && len(w.Table.Rows) <= 5
			rr := runOne(t, &w, fp, mp, mapSeed, seed, nil, false, wantSample || job.Mode == "selftest", filepath.Join(job.Scratch, "run"))
			sum.Runs++
			sum.SeedNext = seed + 1
			sum.Steps += int64(rr.sim.Steps)
			for k, v := range rr.sim.Fired {
				sum.Fired.Add(k, int64(v))
			}
			sum.Probes.Merge(rr.probes)
			sum.Oracles.Add("target-files-compared-with-model", int64(rr.files))
			wj, _ := json.Marshal(w)
			dg := rr.sim.Digest ^ simrt.HashString(string(wj))
			if rr.nontriv {
				sum.NonTrivial++
				digests.Add(dg)
			}
			if job.Mode == "selftest" {
				out.Line(map[string]interface{}{"t": "digest", "seed": seed, "digest": strconv.FormatUint(dg, 16), "steps": rr.sim.Steps,
					"trace_hash": strconv.FormatUint(simrt.HashString(strings.Join(rr.sim.Trace, "\n")), 16)})
			}
			if rr.violation != nil && job.IsKnown(rr.violation.Class) {
				sum.Oracles.Inc("known:" + rr.violation.Class)
			} else if rr.violation != nil {
				rf := replayFile{Property: job.Property, Engine: "gpkgsim", Seed: seed, Workload: w, Faults: fp, MapPolicy: mp.String(), MapSeed: mapSeed,
					Tape: rr.sim.Tape, Violation: rr.violation, ShrinkArrays: []string{"workload.more_tables", "workload.table.rows", "workload.more_tables.*.rows", "workload.targets"}, ShrinkInts: []string{"workload.page_size"}, Trace: rr.sim.Trace}
				out.Line(map[string]interface{}{"t": "violation", "seed": seed, "replay": rf})
				break
			}
			if wantSample {
				b, _ := json.Marshal(map[string]interface{}{"seed": seed, "workload": w, "schedule_tape": rr.sim.Tape, "steps": rr.sim.Steps})
				sum.Samples = append(sum.Samples, b)
			}
		}
		simh.WriteDigests(job.Out+".digests", digests.Slice())
		sum.DigestsTotal = int64(digests.Len())
		sum.WallS = simh.RealNow().Sub(t0).Seconds()
		out.Line(sum)
	case "candidates":
		for i, raw := range job.Candidates {
			var rf replayFile
			if err := json.Unmarshal(raw, &rf); err != nil {
				simh.Fatalf("candidate %d: %v", i, err)
			}
			out.Line(map[string]interface{}{"t": "start", "cand": i})
			runLog.Reset()
			mp, _ := simrt.ParseMapPolicy(rf.MapPolicy)
			class, msg := "", ""
			var trace []string
			ci := i
			onFatal = func(v *simh.Violation) {
				if v == nil {
					v = &simh.Violation{}
				}
				out.Line(map[string]interface{}{"t": "cand", "cand": ci, "class": v.Class, "message": v.Message})
				os.Exit(0)
			}
			for k := rf.Prelude; k >= 1; k-- {
				if rf.Seed >= uint64(k) {
					pw, pfp, pmp, pms := genWork(rf.Seed - uint64(k))
					runOne(t, &pw, pfp, pmp, pms, rf.Seed-uint64(k), nil, false, false, filepath.Join(job.Scratch, "prelude"))
				}
			}
			if rf.Workload.PageSize >= 1 && (rf.Workload.Mode != "pipeline" || len(rf.Workload.Targets) > 0) {
				rr := runOne(t, &rf.Workload, rf.Faults, mp, rf.MapSeed, rf.Seed, rf.Tape, true, true, filepath.Join(job.Scratch, "cand"))
				if rr.violation != nil {
					class, msg = rr.violation.Class, rr.violation.Message
				}
				trace = rr.sim.Trace
			}
			out.Line(map[string]interface{}{"t": "cand", "cand": i, "class": class, "message": msg, "trace": trace})
			if job.WantClass != "" && class == job.WantClass {
				break
			}
		}
		out.Line(map[string]interface{}{"t": "done"})
	default:
		simh.Fatalf("unknown mode %q", job.Mode)
	}
}
