//go:build verif && go1.25

// pipesim: the real processing.ProcessFeatures pipeline (reader goroutine, snapper,
// router, N writer goroutines) under the seeded scheduler of simrt, with fake Source,
// fake Targets and a table-driven (or real) snap function behind the repo's own
// interfaces. Decides C10 (delivery oracle) and C11 (lifecycle oracle).
package processing_test

import (
	"encoding/json"
	"fmt"
	"log"
	"math"
	"os"
	"reflect"
	"sort"
	"strconv"
	"runtime"
	"strings"
	"sync"
	"sync/atomic"
	"testing"
	"time"

	"github.com/go-spatial/geom"
	"github.com/pdok/texel/internal/simh"
	"github.com/pdok/texel/internal/simrt"
	"github.com/pdok/texel/processing"
)

// ------------------------------------------------------------------------------------
// workload

type partSpec struct {
	// Out: target id (decimal string, JSON friendly) -> number of polygons snapping
	// returns for that tile matrix; absent or 0 = dropped for that tile matrix.
	Out map[string]int `json:"out"`
}

type featSpec struct {
	ID    int           `json:"id"`
	Kind  string        `json:"kind"` // polygon multipolygon point linestring multipoint multilinestring collection
	Parts []partSpec    `json:"parts,omitempty"`
	Cols  []interface{} `json:"cols"` // attribute values after the id: float64 / string / nil / {"i":int}
}

type workload struct {
	Targets    []int          `json:"targets"`
	Features   []featSpec     `json:"features"`
	Flush      map[string]int `json:"flush"`                     // per target: simulated final-flush steps
	SnapYields int            `json:"snap_yields"`               // extra scheduling points inside one snap call (slow snapping)
	SrcYields  int            `json:"src_yields"`                // extra scheduling points per feature in the reader (slow reader)
	TgtYields  int            `json:"tgt_yields"`                // extra scheduling points per received feature (slow target)
	NearDup    bool           `json:"near_duplicates,omitempty"` // polygons of consecutive features nearly coincide
	// SharedShell: all polygons have the same outer ring and one hole; only the hole's
	// coordinates tell them apart (comparisons that stop early see equal polygons)
	SharedShell bool `json:"shared_shell,omitempty"`
	// AsyncSource: ReadFeatures hands the sending to a goroutine of its own and returns at once
	// (the interface asks for the features on the channel, not for a blocking call)
	AsyncSource bool `json:"async_source,omitempty"`
	// More: further tables processed by further ProcessFeatures calls in the same run (the
	// command line tool calls it once per table in one process), each with its own stream
	// and targets; state kept between calls by the code under test shows here
	More []workload `json:"more,omitempty"`
	// slowness in simulated TIME (the bubble's fake clock): what timer-based code reacts to
	FlushSleepMs map[string]int `json:"flush_sleep_ms,omitempty"` // per target: duration of the final flush
	RecvSleepMs  map[string]int `json:"recv_sleep_ms,omitempty"`  // per target: handling time per feature
	SnapSleepMs  int            `json:"snap_sleep_ms,omitempty"`
	SrcSleepMs   int            `json:"src_sleep_ms,omitempty"`
	SrcLingerMs  int            `json:"src_linger_ms,omitempty"` // reader keeps busy (closing its cursor) after closing the channel
}

type replayFile struct {
	Property  string          `json:"property"`
	Engine    string          `json:"engine"`
	Mix       string          `json:"mix"`
	Seed      uint64          `json:"seed"`
	Workload  workload        `json:"workload"`
	Faults    simrt.FaultPlan `json:"faults"`
	MapPolicy string          `json:"map_policy"`
	MapSeed   uint64          `json:"map_seed"`
	Tape      []uint32        `json:"tape"`
	Violation *simh.Violation `json:"violation,omitempty"`
	// how the driver may shrink this file
	ShrinkArrays []string `json:"shrink_arrays"`
	ShrinkInts   []string `json:"shrink_ints"`
	Trace        []string `json:"trace,omitempty"`
	// Prelude: run this many preceding seeds first (state kept across calls of the code
	// under test can make a violation depend on what the process did before)
	Prelude int `json:"prelude,omitempty"`
}

var polyKinds = map[string]bool{"polygon": true, "multipolygon": true, "empty-polygon": true, "empty-ring-polygon": true}
var allKinds = []string{"polygon", "multipolygon", "point", "linestring", "multipoint", "multilinestring", "collection"}

func genWorkload(seed uint64, mix string) (workload, simrt.FaultPlan, simrt.MapPolicy, uint64) {
	return genWorkloadN(seed, mix, false)
}

// fixOutcomes re-keys the snapping outcome table of a workload whose target set was replaced.
func fixOutcomes(w *workload) {
	for fi := range w.Features {
		for pi := range w.Features[fi].Parts {
			old := w.Features[fi].Parts[pi].Out
			vals := make([]int, 0, len(old))
			keys := make([]string, 0, len(old))
			for k := range old {
				keys = append(keys, k)
			}
			sort.Strings(keys)
			for _, k := range keys {
				vals = append(vals, old[k])
			}
			out := map[string]int{}
			for i, id := range w.Targets {
				if i < len(vals) {
					out[strconv.Itoa(id)] = vals[i]
				} else if (fi+pi+id)%3 != 0 {
					out[strconv.Itoa(id)] = 1
				}
			}
			w.Features[fi].Parts[pi].Out = out
		}
	}
}

func genWorkloadN(seed uint64, mix string, nested bool) (workload, simrt.FaultPlan, simrt.MapPolicy, uint64) {
	r := simrt.NewRNG(seed, "pipesim-workload")
	var w workload
	// targets: 1..5 distinct ids from 0..16, unsorted
	n := 1 + r.Intn(5)
	ids := r.Perm(17)[:n]
	w.Targets = ids
	// stream length
	var cnt int
	switch mix {
	case "C11":
		switch x := r.Intn(8); {
		case x < 2:
			cnt = 0
		case x < 6:
			cnt = 1 + r.Intn(4)
		default:
			cnt = 5 + r.Intn(16)
		}
	default:
		switch x := r.Intn(20); {
		case x < 1:
			cnt = 0
		case x < 10:
			cnt = 1 + r.Intn(3)
		case x < 17:
			cnt = 4 + r.Intn(20)
		case x < 19:
			cnt = 24 + r.Intn(60)
		default:
			cnt = 84 + r.Intn(117) // up to 200
		}
		if r.Chance(0.015) {
			// rarely a long table: object pools, slabs and buffers only wrap around here
			cnt = 300 + r.Intn(900)
		}
		if r.Chance(0.0008) {
			// very rarely a table of thousands of features: logs that are compacted, rings of
			// thousands of slots, lanes hundreds deep
			cnt = 2100 + r.Intn(4500)
		}
	}
	// per-run bias: some targets never receive polygon output at all
	starved := map[int]bool{}
	if r.Chance(0.4) {
		for _, id := range ids {
			if r.Chance(0.4) {
				starved[id] = true
			}
		}
	}
	polyOnly := r.Chance(0.3) // with starved targets and polygons only, a writer gets nothing at all
	genOut := func() map[string]int {
		out := map[string]int{}
		for _, id := range ids {
			if starved[id] {
				continue
			}
			switch x := r.Intn(10); {
			case x < 3: // dropped
			case x < 7:
				out[strconv.Itoa(id)] = 1
			case x < 8:
				out[strconv.Itoa(id)] = -1 // kept exactly as it came in (one polygon equal to the input)
			default:
				out[strconv.Itoa(id)] = 2 + r.Intn(2)
			}
		}
		return out
	}
	for i := 0; i < cnt; i++ {
		f := featSpec{ID: 1000 + i}
		k := allKinds[r.Intn(len(allKinds))]
		if polyOnly || r.Chance(0.45) {
			k = allKinds[r.Intn(2)]
		}
		if polyKinds[k] && r.Chance(0.03) {
			// POLYGON EMPTY, and a polygon whose only ring is empty: the library returns nothing
			// for them, so they must reach no target
			k = []string{"empty-polygon", "empty-ring-polygon"}[r.Intn(2)]
		}
		f.Kind = k
		switch k {
		case "polygon":
			f.Parts = []partSpec{{Out: genOut()}}
		case "multipolygon":
			np := r.Intn(4)
			if r.Chance(0.01) {
				np = 33 + r.Intn(40) // now and then a multipolygon of very many parts
			}
			if r.Chance(0.004) {
				np = 100 + r.Intn(400) // rarely hundreds: code that splits such work into chunks
			}
			for p := 0; p < np; p++ {
				f.Parts = append(f.Parts, partSpec{Out: genOut()})
			}
		}
		nc := 1 + r.Intn(3)
		for c := 0; c < nc; c++ {
			switch r.Intn(4) {
			case 0:
				f.Cols = append(f.Cols, map[string]interface{}{"i": float64(int64(r.Uint64()%2000000) - 1000000)})
			case 1:
				f.Cols = append(f.Cols, float64(r.Intn(1000000))/64.0)
			case 2:
				f.Cols = append(f.Cols, "s"+strconv.Itoa(f.ID)+"-"+strconv.Itoa(r.Intn(1000)))
			default:
				f.Cols = append(f.Cols, nil)
			}
		}
		w.Features = append(w.Features, f)
	}
	w.NearDup = r.Chance(0.08)
	w.SharedShell = !w.NearDup && r.Chance(0.08)
	w.AsyncSource = r.Chance(0.08)
	w.Flush = map[string]int{}
	for _, id := range ids {
		k := 1 + r.Intn(3)
		if r.Chance(0.15) {
			k = 0
		}
		if r.Chance(0.15) {
			k = 4 + r.Intn(6)
		}
		w.Flush[strconv.Itoa(id)] = k
	}
	if r.Chance(0.3) {
		w.SnapYields = 1 + r.Intn(3)
	}
	if r.Chance(0.3) {
		w.SrcYields = 1 + r.Intn(2)
	}
	if r.Chance(0.3) {
		w.TgtYields = 1 + r.Intn(2)
	}
	if cnt > 2000 {
		w.SnapYields, w.SrcYields = 0, 0 // (keeps such a run within a few seconds)
	}
	if r.Chance(0.25) {
		w.FlushSleepMs, w.RecvSleepMs = map[string]int{}, map[string]int{}
		for _, id := range ids {
			if r.Chance(0.5) {
				w.FlushSleepMs[strconv.Itoa(id)] = []int{50, 900, 3000, 7000, 20000, 90000}[r.Intn(6)]
			}
			if r.Chance(0.3) {
				w.RecvSleepMs[strconv.Itoa(id)] = []int{5, 300, 2500, 6000}[r.Intn(4)]
			}
		}
		if r.Chance(0.3) {
			w.SnapSleepMs = []int{10, 1200, 6000}[r.Intn(3)]
		}
		if r.Chance(0.3) {
			w.SrcSleepMs = []int{10, 1500, 8000}[r.Intn(3)]
		}
	}
	if r.Chance(0.3) {
		w.SrcLingerMs = []int{1, 2000, 40000}[r.Intn(3)]
	}

	if !nested && r.Chance(0.3) {
		for k, n := 0, 1+r.Intn(2); k < n; k++ {
			nw, _, _, _ := genWorkloadN(seed*31+uint64(k)+7, mix, true)
			switch x := r.Intn(10); {
			case x < 6: // the same targets again, as the command line tool does
				nw.Targets = append([]int(nil), w.Targets...)
				nw.Flush = map[string]int{}
				for _, id := range nw.Targets {
					nw.Flush[strconv.Itoa(id)] = 1 + r.Intn(3)
				}
				fixOutcomes(&nw)
			case x < 8: // a superset or subset
				nw.Targets = append([]int(nil), w.Targets...)
				if r.Chance(0.5) && len(nw.Targets) > 1 {
					nw.Targets = nw.Targets[:len(nw.Targets)-1]
				} else {
					for id := 0; id < 17; id++ {
						seen := false
						for _, t := range nw.Targets {
							seen = seen || t == id
						}
						if !seen {
							nw.Targets = append(nw.Targets, id)
							break
						}
					}
				}
				nw.Flush = map[string]int{}
				for _, id := range nw.Targets {
					nw.Flush[strconv.Itoa(id)] = 1 + r.Intn(3)
				}
				fixOutcomes(&nw)
			}
			if r.Chance(0.25) {
				nw.Features = nil // an empty table in between
			}
			nw.NearDup, nw.SharedShell = w.NearDup, w.SharedShell
			w.More = append(w.More, nw)
		}
	}
	// fault plan (swarm: each run enables its own subset)
	fr := simrt.NewRNG(seed, "pipesim-faults")
	var fp simrt.FaultPlan
	fp.Policy = simrt.Policy(fr.Intn(4))
	if fr.Chance(0.03) {
		fp.Policy = simrt.PolLowestFirst
	}
	fp.StallMax, fp.LateStartMax, fp.BurstMax = 2+fr.Intn(30), 2+fr.Intn(40), 1+fr.Intn(8)
	fp.SlowFrac = 0.1 + 0.4*fr.Float()
	fp.PCTDepth = 1 + fr.Intn(4)
	hi := mix == "C11"
	if fr.Chance(pick(hi, 0.7, 0.3)) {
		fp.StallRate = pick(hi, 0.15, 0.04) * fr.Float()
	}
	if fr.Chance(pick(hi, 0.7, 0.25)) {
		fp.LateStartRate = pick(hi, 0.6, 0.2) * fr.Float()
	}
	if fr.Chance(0.3) {
		fp.BurstRate = 0.1 * fr.Float()
	}
	if fr.Chance(pick(hi, 0.4, 0.1)) {
		fp.ClockJumpRate = 0.05 * fr.Float()
	}
	mp := simrt.MapPolicy(1 + fr.Intn(5))
	return w, fp, mp, fr.Uint64()
}

func pick(c bool, a, b float64) float64 {
	if c {
		return a
	}
	return b
}

// ------------------------------------------------------------------------------------
// fakes

type srcFeature struct {
	cols []interface{}
	g    geom.Geometry
}

func (f *srcFeature) Columns() []interface{}  { return f.cols }
func (f *srcFeature) Geometry() geom.Geometry { return f.g }

func decodeCols(f featSpec) []interface{} {
	cols := []interface{}{int64(f.ID)}
	for _, c := range f.Cols {
		switch v := c.(type) {
		case map[string]interface{}:
			cols = append(cols, int64(v["i"].(float64)))
		default:
			cols = append(cols, v)
		}
	}
	// exact capacity: the harness must not create sharing hazards of its own
	return append(make([]interface{}, 0, len(cols)), cols...)
}

// inputPolygon encodes (feature, part) in its coordinates so the table snap function
// can tell which production it is asked for.
func inputPolygon(fid, part int) geom.Polygon {
	x, y := polyBase+float64(fid)*polyScale, polyBase+float64(part)*polyScale
	if sharedShell {
		return geom.Polygon{{{-8, -8}, {1e7, -8}, {-8, 1e7}}, {{x + 0.125, y + 0.125}, {x + 0.125, y + 0.375}, {x + 0.375, y + 0.125}}}
	}
	return geom.Polygon{{{x, y}, {x + 1, y}, {x, y + 1}}}
}

// sharedShell: see workload.SharedShell. Set per run by build().
var sharedShell bool

// produced: the polygons the stub returns for an outcome-table entry (n > 0: n unique
// polygons; n < 0: the input itself, as a fresh copy).
func produced(fid, part, tm, n int) []geom.Polygon {
	if n < 0 {
		return []geom.Polygon{inputPolygon(fid, part)}
	}
	var out []geom.Polygon
	for i := 0; i < n; i++ {
		out = append(out, outputPolygon(fid, part, tm, i))
	}
	return out
}

func outCount(n int) int {
	if n < 0 {
		return 1
	}
	return n
}

// polyBase / polyScale place the generated polygons. Normally base 0 and spacing 1; in
// near-duplicate mode base 5e6 and spacing 0.25, so that consecutive features' polygons
// are equal under a tolerant comparison (relative 1e-6) while being different polygons
// with different snapping outcomes. Set per run by build().
var polyBase, polyScale = 0.0, 1.0

func decodePolygon(p geom.Polygon) (fid, part int) {
	if sharedShell && len(p) >= 2 && len(p[1]) > 0 {
		return int(math.Round((p[1][0][0] - 0.125 - polyBase) / polyScale)), int(math.Round((p[1][0][1] - 0.125 - polyBase) / polyScale))
	}
	return int(math.Round((p[0][0][0] - polyBase) / polyScale)), int(math.Round((p[0][0][1] - polyBase) / polyScale))
}

// outputPolygon: every produced polygon is unique and attributable to one production.
func outputPolygon(fid, part, tm, idx int) geom.Polygon {
	x, y := polyBase+float64(fid)*polyScale, polyBase+float64(part)*polyScale
	return geom.Polygon{{{x, y}, {float64(tm) + 0.25, float64(idx) + 0.5}, {x + 0.5, y + 0.5}}}
}

func geometryOf(f featSpec) geom.Geometry {
	x := float64(f.ID)
	switch f.Kind {
	case "polygon":
		return inputPolygon(f.ID, 0)
	case "empty-polygon":
		return geom.Polygon{}
	case "empty-ring-polygon":
		return geom.Polygon{{}}
	case "multipolygon":
		mp := geom.MultiPolygon{}
		for p := range f.Parts {
			mp = append(mp, inputPolygon(f.ID, p))
		}
		return mp
	case "point":
		return geom.Point{x, 1}
	case "linestring":
		return geom.LineString{{x, 1}, {x + 1, 2}}
	case "multipoint":
		return geom.MultiPoint{{x, 1}, {x, 2}}
	case "multilinestring":
		return geom.MultiLineString{{{x, 1}, {x + 1, 2}}, {{x, 3}, {x + 1, 4}}}
	default:
		return geom.Collection{geom.Point{x, 1}, geom.LineString{{x, 1}, {x + 1, 2}}, geom.Polygon{{{x, 0}, {x + 1, 0}, {x, 1}}}}
	}
}

type fakeSource struct {
	w     *workload
	feats []*srcFeature
	h     *harness
}

func (s *fakeSource) ReadFeatures(ch chan<- processing.Feature) {
	if s.w.AsyncSource {
		go func() {
			simrt.YieldAs("src", "src:async-start")
			s.readFeatures(ch)
		}()
		return
	}
	s.readFeatures(ch)
}

func (s *fakeSource) readFeatures(ch chan<- processing.Feature) {
	for i, f := range s.feats {
		for k := 0; k < s.w.SrcYields; k++ {
			simrt.YieldAs("src", "src:slow")
		}
		jitter(s.w.SrcYields)
		simSleep(s.w.SrcSleepMs)
		simrt.YieldAs("src", "src:send")
		ch <- f
		s.h.mu.Lock()
		s.h.srcSent = i + 1
		s.h.mu.Unlock()
	}
	simrt.YieldAs("src", "src:close")
	close(ch)
	s.h.mu.Lock()
	s.h.srcClosed = true
	s.h.mu.Unlock()
	// like the real reader, which still closes its cursor after closing the channel
	if s.w.SrcLingerMs > 0 {
		simrt.YieldAs("src", "src:linger")
		simSleep(s.w.SrcLingerMs)
		simrt.YieldAs("src", "src:return")
	}
}

// simSleep lets simulated time pass for the calling goroutine (fake clock inside a
// bubble; skipped in the free-running pass, where it would be real time).
func simSleep(ms int) {
	if ms > 0 && simrt.Active() {
		time.Sleep(time.Duration(ms) * time.Millisecond)
	}
}

// jitter: in the free-running pass the extra scheduling points become tiny real pauses, so
// that stages run at varying relative speeds under the race detector.
func jitter(k int) {
	if k > 0 && !simrt.Active() {
		time.Sleep(time.Duration(k) * 20 * time.Microsecond)
	}
}

type delivery struct {
	// late*: what the feature says when the target looks at it again at the very end of its
	// final flush (a real target buffers features and reads them when it writes the page)
	lateCols []interface{}
	lateG    geom.Geometry
	lateT    int
	lateRead bool
	seq      int
	cols     []interface{}
	g        geom.Geometry
	tmid     int
	hasT     bool
	feat     processing.Feature
}

type fakeTarget struct {
	id      int
	flush   int
	h       *harness
	started bool
	done    bool
	got     []delivery
	calls   int
	nils    int // nil features received
	// probes
	startedAfterFirstSend bool
	startedAfterClose     bool
}

func (t *fakeTarget) WriteFeatures(ch <-chan processing.Feature) {
	name := "tgt[" + strconv.Itoa(t.id) + "]"
	t.h.mu.Lock()
	t.calls++
	t.started = true
	t.startedAfterFirstSend = t.h.srcSent > 0
	t.startedAfterClose = t.h.srcClosed
	t.h.mu.Unlock()
	for {
		simrt.YieldAs(name, "tgt:recv")
		f, ok := <-ch
		if !ok {
			break
		}
		if f == nil {
			t.h.mu.Lock()
			t.nils++
			t.h.mu.Unlock()
			continue
		}
		d := delivery{feat: f, g: f.Geometry()}
		d.cols = append([]interface{}(nil), f.Columns()...)
		if ft, isT := f.(processing.FeatureForTileMatrix); isT {
			d.tmid, d.hasT = ft.TileMatrixID(), true
		}
		simrt.Logf("got feature %d", fidOf(d.cols))
		t.h.mu.Lock()
		t.h.seq++
		d.seq = t.h.seq
		t.got = append(t.got, d)
		t.h.mu.Unlock()
		for k := 0; k < t.h.w.TgtYields; k++ {
			simrt.YieldAs(name, "tgt:slow")
		}
		jitter(t.h.w.TgtYields * (1 + t.id%3))
		simSleep(t.h.w.RecvSleepMs[strconv.Itoa(t.id)])
	}
	// the final flush: real work a target still has to do after its channel closed
	for k := 0; k < t.flush; k++ {
		simrt.YieldAs(name, "tgt:flush")
	}
	simSleep(t.h.w.FlushSleepMs[strconv.Itoa(t.id)])
	t.h.mu.Lock()
	for i := range t.got {
		d := &t.got[i]
		d.lateCols = append([]interface{}(nil), d.feat.Columns()...)
		d.lateG = d.feat.Geometry()
		if ft, isT := d.feat.(processing.FeatureForTileMatrix); isT {
			d.lateT = ft.TileMatrixID()
		}
		d.lateRead = true
	}
	t.h.mu.Unlock()
	t.h.mu.Lock()
	t.done = true
	t.h.mu.Unlock()
}

type harness struct {
	mu        sync.Mutex
	w         *workload
	byID      map[int]featSpec
	targets   map[int]*fakeTarget
	seq       int
	srcSent   int
	srcClosed bool
	snapCalls int
	snapBad   string
}

// tableSnap is the stub for snap.SnapPolygon: the outcome for (feature, part, tile
// matrix) comes from the generated table.
func (h *harness) tableSnap(p geom.Polygon, tmIDs []int) map[int][]geom.Polygon {
	for k := 0; k < h.w.SnapYields; k++ {
		simrt.Yield("snap:slow")
	}
	jitter(h.w.SnapYields)
	simSleep(h.w.SnapSleepMs)
	if len(p) == 0 || len(p[0]) == 0 {
		return map[int][]geom.Polygon{} // nothing to snap: what the library returns for an empty polygon
	}
	fid, part := decodePolygon(p)
	h.mu.Lock()
	h.snapCalls++
	f, ok := h.byID[fid]
	h.mu.Unlock()
	out := map[int][]geom.Polygon{}
	if !ok || part >= len(f.Parts) {
		h.mu.Lock()
		h.snapBad = fmt.Sprintf("snap function asked for an unknown production: feature %d part %d", fid, part)
		h.mu.Unlock()
		return out
	}
	for _, tm := range tmIDs {
		if ps := produced(fid, part, tm, f.Parts[part].Out[strconv.Itoa(tm)]); len(ps) > 0 {
			out[tm] = ps
		}
	}
	return out
}

// ------------------------------------------------------------------------------------
// reference model and oracles

type expected struct {
	fid   int
	cols  []interface{}
	g     geom.Geometry  // non-polygon: the original geometry
	polys []geom.Polygon // polygonal: what snapping produced for this target
	poly  bool
}

func model(w *workload, target int) []expected {
	var out []expected
	key := strconv.Itoa(target)
	for _, f := range w.Features {
		e := expected{fid: f.ID, cols: decodeCols(f)}
		if !polyKinds[f.Kind] {
			e.g = geometryOf(f)
			out = append(out, e)
			continue
		}
		e.poly = true
		for p, part := range f.Parts {
			e.polys = append(e.polys, produced(f.ID, p, target, part.Out[key])...)
		}
		if len(e.polys) > 0 {
			out = append(out, e)
		}
	}
	return out
}

func polysOf(g geom.Geometry) ([]geom.Polygon, bool) {
	switch v := g.(type) {
	case geom.Polygon:
		return []geom.Polygon{v}, true
	case geom.MultiPolygon:
		out := make([]geom.Polygon, len(v))
		for i := range v {
			out[i] = v[i]
		}
		return out, true
	case *geom.Polygon:
		return []geom.Polygon{*v}, true
	case *geom.MultiPolygon:
		return polysOf(*v)
	}
	return nil, false
}

func polyKey(p geom.Polygon) string { return fmt.Sprint([][][2]float64(p)) }

func fidOf(cols []interface{}) int {
	if len(cols) > 0 {
		if v, ok := cols[0].(int64); ok {
			return int(v)
		}
	}
	return -1
}

// checkDelivery compares what one target received with the model. The class names the
// kind of mismatch (first one found), the message the details.
func checkDelivery(w *workload, t *fakeTarget) *simh.Violation {
	exp := model(w, t.id)
	got := t.got
	v := func(class, format string, args ...interface{}) *simh.Violation {
		return &simh.Violation{Class: "delivery/" + class, Message: fmt.Sprintf("target %d: ", t.id) + fmt.Sprintf(format, args...)}
	}
	if t.nils > 0 {
		return v("nil-feature", "%d nil features were sent to the target", t.nils)
	}
	if t.calls == 0 && len(exp) == 0 {
		return nil // a target nothing is addressed to need not be started at all
	}
	if t.calls != 1 {
		return v("writer-calls", "WriteFeatures called %d times", t.calls)
	}
	// sequence of feature ids first: tells missing / extra / duplicate / reorder apart
	var eIDs, gIDs []int
	for _, e := range exp {
		eIDs = append(eIDs, e.fid)
	}
	for _, d := range got {
		gIDs = append(gIDs, fidOf(d.cols))
	}
	if !reflect.DeepEqual(eIDs, gIDs) {
		cnt := map[int]int{}
		for _, id := range gIDs {
			cnt[id]++
		}
		ecnt := map[int]int{}
		for _, id := range eIDs {
			ecnt[id]++
		}
		for _, id := range gIDs {
			if cnt[id] > 1 && ecnt[id] == 1 {
				return v("duplicate", "feature %d delivered %d times; expected ids %v got %v", id, cnt[id], eIDs, gIDs)
			}
		}
		for _, id := range eIDs {
			if cnt[id] == 0 {
				return v("missing", "feature %d never delivered; expected ids %v got %v", id, eIDs, gIDs)
			}
		}
		for _, id := range gIDs {
			if ecnt[id] == 0 {
				return v("extra", "feature %d delivered but not expected; expected ids %v got %v", id, eIDs, gIDs)
			}
		}
		return v("reorder", "expected ids %v got %v", eIDs, gIDs)
	}
	for i, e := range exp {
		d := got[i]
		if d.hasT && d.tmid != t.id {
			return v("wrong-target", "feature %d carries tile matrix id %d", e.fid, d.tmid)
		}
		if !reflect.DeepEqual(e.cols, d.cols) {
			return v("columns", "feature %d columns %#v, want %#v", e.fid, d.cols, e.cols)
		}
		// the feature must still say the same when the target reads it again during its final
		// flush (what happens to the objects after the target has returned is nobody's business)
		if d.lateRead {
			if !reflect.DeepEqual(e.cols, d.lateCols) {
				return v("columns-mutated", "feature %d columns changed between delivery and the target's final flush: %#v", e.fid, d.lateCols)
			}
			if !reflect.DeepEqual(d.g, d.lateG) {
				return v("geometry-mutated", "feature %d: geometry changed between delivery and the target's final flush: %#v, was %#v", e.fid, d.lateG, d.g)
			}
			if d.hasT && d.lateT != d.tmid {
				return v("wrong-target", "feature %d: tile matrix id changed after delivery: %d, was %d", e.fid, d.lateT, d.tmid)
			}
		}
		if !e.poly {
			if !reflect.DeepEqual(e.g, d.g) {
				return v("geometry-nonpolygon", "feature %d geometry %#v, want untouched %#v", e.fid, d.g, e.g)
			}
			continue
		}
		ps, ok := polysOf(d.g)
		if !ok {
			return v("geometry-type", "feature %d delivered as %T, want polygon(s)", e.fid, d.g)
		}
		if _, single := d.g.(geom.Polygon); single && len(e.polys) > 1 {
			return v("geometry-polygons", "feature %d: %d polygons expected, a single polygon delivered", e.fid, len(e.polys))
		}
		ek, gk := []string{}, []string{}
		for _, p := range e.polys {
			ek = append(ek, polyKey(p))
		}
		for _, p := range ps {
			gk = append(gk, polyKey(p))
		}
		sort.Strings(ek)
		sort.Strings(gk)
		if !reflect.DeepEqual(ek, gk) {
			return v("geometry-polygons", "feature %d polygons %v, want %v", e.fid, gk, ek)
		}
	}
	return nil
}

// ------------------------------------------------------------------------------------
// one simulated run

type runResult struct {
	deliveryViolation *simh.Violation // what the delivery oracle alone says (evaluated at the end of every run)
	sim               simrt.Result
	violation         *simh.Violation
	probes            simh.Counter
	mapStats          simrt.MapStats
	mapDigest         uint64
	nontriv           bool
	deliv             map[string][]int // per target: delivered feature ids (for samples)
}

func stepBudget(w *workload) int {
	total := 0
	for _, tw := range tablesOf(w) {
		total += stepBudget1(tw)
	}
	return total
}

func stepBudget1(w *workload) int {
	f, t := len(w.Features)+1, len(w.Targets)+2
	per := 1 + w.SnapYields + w.SrcYields + w.TgtYields
	fl := 0
	for _, k := range w.Flush {
		fl += k
	}
	return 2000 + 100*f*t*per + 10*fl
}

func build(w *workload) (*harness, *fakeSource, map[int]processing.Target) {
	polyBase, polyScale = 0, 1
	sharedShell = w.SharedShell
	if w.NearDup {
		polyBase, polyScale = 5e6, 0.25
	}
	h := &harness{w: w, byID: map[int]featSpec{}, targets: map[int]*fakeTarget{}}
	src := &fakeSource{w: w, h: h}
	for _, f := range w.Features {
		h.byID[f.ID] = f
		src.feats = append(src.feats, &srcFeature{cols: decodeCols(f), g: geometryOf(f)})
	}
	targets := map[int]processing.Target{}
	for _, id := range w.Targets {
		ft := &fakeTarget{id: id, flush: w.Flush[strconv.Itoa(id)], h: h}
		h.targets[id] = ft
		targets[id] = ft
	}
	return h, src, targets
}

// tablesOf lists the tables of a run: the workload itself and its follow-ups.
func tablesOf(w *workload) []*workload {
	out := []*workload{w}
	for i := range w.More {
		out = append(out, &w.More[i])
	}
	return out
}

func sortedTargets(h *harness) []*fakeTarget {
	var ts []*fakeTarget
	for _, t := range h.targets {
		ts = append(ts, t)
	}
	sort.Slice(ts, func(i, j int) bool { return ts[i].id < ts[j].id })
	return ts
}

// waitForAll is the C11 safety oracle, evaluated at the first quiescent point at which
// the caller has returned from ProcessFeatures: every target must have finished
// (including its final flush) and consumed everything addressed to it.
func waitForAll(h *harness) *simh.Violation {
	h.mu.Lock()
	defer h.mu.Unlock()
	for _, t := range sortedTargetsLocked(h) {
		if !t.started && len(model(h.w, t.id)) == 0 {
			continue // nothing addressed to it: it need not be started at all
		}
		if !t.done {
			state := "still writing"
			if !t.started {
				state = "not even started"
			}
			return &simh.Violation{Class: "lifecycle/early-return",
				Message: fmt.Sprintf("ProcessFeatures returned while target %d was %s (received %d of %d features)", t.id, state, len(t.got), len(model(h.w, t.id)))}
		}
	}
	return nil
}

func sortedTargetsLocked(h *harness) []*fakeTarget { return sortedTargets(h) }

var tapeSink func(uint32)

// onFatal reports a violation that makes it impossible to leave the bubble (a goroutine
// that can never finish) and ends the process.
var onFatal func(v *simh.Violation)

func runSim(t *testing.T, w *workload, fp simrt.FaultPlan, mp simrt.MapPolicy, mapSeed, seed uint64, tape []uint32, replay, trace bool) (rr runResult) {
	rr.probes = simh.Counter{}
	tables := tablesOf(w)
	var hmu sync.Mutex
	var harnesses []*harness
	var returned atomic.Int32
	simrt.SetMapOrder(mp, mapSeed)
	var early *simh.Violation
	checked := 0
	opt := simrt.Options{
		Seed: seed, Faults: fp, Tape: tape, Replay: replay, MaxSteps: stepBudget(w), Trace: trace, TapeSink: tapeSink,
		AfterStep: func(s *simrt.Sim) string {
			// at the first quiescent point after a call of ProcessFeatures has returned
			for checked < int(returned.Load()) {
				hmu.Lock()
				hk := harnesses[checked]
				hmu.Unlock()
				checked++
				if v := waitForAll(hk); v != nil {
					if checked > 1 {
						v.Message = fmt.Sprintf("table %d of the run: ", checked) + v.Message
					}
					early = v
					return v.Message
				}
			}
			return ""
		},
	}
	// the environment: in one run out of eight the standard error stream is a character device
	// (a terminal, /dev/null) instead of the pipe a test process has; code that decides on that
	// (progress lines only on a terminal) takes its other branch
	if seed%8 == 3 {
		if dn, err := os.OpenFile(os.DevNull, os.O_WRONLY, 0); err == nil {
			oldErr := os.Stderr
			os.Stderr = dn
			defer func() { os.Stderr = oldErr; dn.Close() }()
		}
	}
	var leak string
	rr.sim, leak = simh.RunBubble(t, opt, func() {
		for k, tw := range tables {
			hk, src, targets := build(tw)
			hmu.Lock()
			harnesses = append(harnesses, hk)
			hmu.Unlock()
			processing.ProcessFeatures(src, targets, hk.tableSnap)
			returned.Store(int32(k + 1))
			if k+1 < len(tables) {
				simrt.YieldAs("caller", "caller:next-table")
			}
		}
	}, func(stacks string) {
		if onFatal != nil {
			onFatal(&simh.Violation{Class: "lifecycle/goroutine-leak", Message: stacks})
		}
	})
	checkedReturn := checked == len(tables)
	var h *harness
	if len(harnesses) > 0 {
		h = harnesses[0]
	} else {
		h, _, _ = build(w)
	}
	rr.mapStats, rr.mapDigest = simrt.TakeMapStats()
	simrt.SetMapOrder(simrt.MapNative, 0)
	wj, _ := json.Marshal(w)
	rr.sim.Digest ^= rr.mapDigest ^ simrt.HashString(string(wj))

	// --- oracles, in order of specificity
	switch {
	case early != nil:
		rr.violation = early
	case rr.sim.Outcome == "deadlock":
		rr.violation = &simh.Violation{Class: "lifecycle/deadlock", Message: rr.sim.Detail + "; " + strings.Join(rr.sim.Blocked, "; ")}
	case rr.sim.Outcome == "livelock":
		rr.violation = &simh.Violation{Class: "lifecycle/livelock", Message: rr.sim.Detail}
	case rr.sim.Outcome == "ambiguous-spawn":
		simh.Fatalf("pipesim: %s", rr.sim.Detail)
	case rr.sim.Outcome != "ok":
		simh.Fatalf("pipesim: unexpected simulator outcome %q %s", rr.sim.Outcome, rr.sim.Detail)
	}
	if rr.violation == nil && leak != "" {
		rr.violation = &simh.Violation{Class: "lifecycle/goroutine-leak", Message: "goroutines still blocked after the pipeline returned and the system went quiet: " + leak}
	}
	if rr.violation == nil && !checkedReturn {
		rr.violation = &simh.Violation{Class: "lifecycle/no-return", Message: "ProcessFeatures never returned"}
	}
	if rr.sim.Outcome == "ok" {
		for k, hk := range harnesses {
			hk.mu.Lock()
			if rr.deliveryViolation == nil && hk.snapBad != "" {
				rr.deliveryViolation = &simh.Violation{Class: "delivery/snap-input", Message: hk.snapBad}
			}
			for _, ft := range sortedTargets(hk) {
				if rr.deliveryViolation == nil {
					if v := checkDelivery(tables[k], ft); v != nil {
						if k > 0 {
							v.Message = fmt.Sprintf("table %d of the run: ", k+1) + v.Message
						}
						rr.deliveryViolation = v
					}
				}
			}
			hk.mu.Unlock()
		}
	}
	if rr.violation == nil {
		rr.violation = rr.deliveryViolation
	}
	if len(tables) > 1 {
		rr.probes.Inc("several-tables-in-one-run(consecutive-calls)")
	}
	collectProbes(h, w, &rr)
	return rr
}

func collectProbes(h *harness, w *workload, rr *runResult) {
	p := rr.probes
	h.mu.Lock()
	defer h.mu.Unlock()
	rr.deliv = map[string][]int{}
	if len(w.Features) == 0 {
		p.Inc("empty-stream")
	}
	p.Inc("targets=" + strconv.Itoa(len(w.Targets)))
	for _, f := range w.Features {
		if !polyKinds[f.Kind] {
			p.Inc("non-polygon-fan-out")
			continue
		}
		kept, dropped, split := 0, 0, false
		for _, id := range w.Targets {
			n := 0
			for _, part := range f.Parts {
				n += outCount(part.Out[strconv.Itoa(id)])
			}
			if n == 0 {
				dropped++
			} else {
				kept++
			}
			if n > 1 {
				split = true
			}
		}
		if kept > 0 && dropped > 0 {
			p.Inc("kept-for-some-dropped-for-others")
		}
		if kept == 0 {
			p.Inc("dropped-everywhere")
		}
		if split {
			p.Inc("several-polygons-as-multipolygon")
		}
		if f.Kind == "multipolygon" {
			some, none := false, false
			for _, part := range f.Parts {
				tot := 0
				for _, n := range part.Out {
					tot += outCount(n)
				}
				if tot == 0 {
					none = true
				} else {
					some = true
				}
			}
			if some && none {
				p.Inc("multipolygon-some-parts-dropped")
			}
			if len(f.Parts) == 0 {
				p.Inc("multipolygon-without-parts")
			}
		}
	}
	last := -1
	lastTgt := -1
	starvedTargets := 0
	for _, t := range sortedTargets(h) {
		ids := []int{}
		for _, d := range t.got {
			ids = append(ids, fidOf(d.cols))
			if d.seq > last {
				last, lastTgt = d.seq, t.id
			}
		}
		rr.deliv[strconv.Itoa(t.id)] = ids
		if len(t.got) == 0 && len(w.Features) > 0 {
			starvedTargets++
		}
		if t.startedAfterFirstSend {
			p.Inc("writer-started-after-reader-sent")
		}
		if t.startedAfterClose {
			p.Inc("writer-started-after-stream-closed")
		}
	}
	if starvedTargets > 0 {
		p.Inc("target-received-nothing")
	}
	if lastTgt >= 0 {
		// did the target with the longest flush receive the last feature?
		maxFlush, slow := -1, -1
		for _, t := range sortedTargets(h) {
			if t.flush > maxFlush {
				maxFlush, slow = t.flush, t.id
			}
		}
		if slow == lastTgt && len(w.Targets) > 1 {
			p.Inc("slowest-target-received-last-feature")
		}
	}
	// emit order of one feature's results differs from ascending id order
	if len(w.Targets) > 1 {
		bySeq := map[int][]delivery{}
		for _, t := range h.targets {
			for _, d := range t.got {
				bySeq[fidOf(d.cols)] = append(bySeq[fidOf(d.cols)], delivery{seq: d.seq, tmid: t.id})
			}
		}
		for _, ds := range bySeq {
			sort.Slice(ds, func(i, j int) bool { return ds[i].seq < ds[j].seq })
			for i := 1; i < len(ds); i++ {
				if ds[i].tmid < ds[i-1].tmid {
					p.Inc("emit-order-differs-from-id-order")
					break
				}
			}
		}
	}
	for k, v := range rr.sim.Fired {
		_ = k
		_ = v
	}
	rr.nontriv = len(w.Features) >= 1 && rr.sim.Contended >= 1
}

// ------------------------------------------------------------------------------------
// free-running pass (race detector): same workloads and oracles, no scheduler

const freeRunLimit = 60 * time.Second

// trimStacks keeps the goroutines whose stack mentions the package under test.
func trimStacks(all, pkg string) string {
	var keep []string
	for _, g := range strings.Split(all, "\n\n") {
		if strings.Contains(g, "texel/"+pkg+".") && !strings.Contains(g, "runFree1(") {
			keep = append(keep, g)
		}
	}
	out := strings.Join(keep, "\n\n")
	if len(out) > 6000 {
		out = out[:6000] + "\n..."
	}
	return out
}

func runFree(w *workload) *simh.Violation {
	for _, tw := range tablesOf(w) {
		if v := runFree1(tw); v != nil {
			return v
		}
	}
	return nil
}

func runFree1(w *workload) *simh.Violation {
	h, src, targets := build(w)
	// a free-running call that does not come back within a minute of real time (it takes
	// milliseconds) hangs: report it with the stacks of all goroutines as evidence
	done := make(chan struct{})
	go func() {
		defer close(done)
		processing.ProcessFeatures(src, targets, h.tableSnap)
	}()
	select {
	case <-done:
	case <-time.After(freeRunLimit):
		buf := make([]byte, 1<<20)
		buf = buf[:runtime.Stack(buf, true)]
		return &simh.Violation{Class: "lifecycle/hang-free-running", Message: fmt.Sprintf("free-running: ProcessFeatures has not returned after %v of real time; goroutines:\n%s", freeRunLimit, trimStacks(string(buf), "processing"))}
	}
	// the caller's view right after return, without any synchronisation of its own:
	// exactly what main.go does when it re-assigns target.Table
	for _, t := range sortedTargets(h) {
		if !t.started && len(model(w, t.id)) == 0 {
			continue
		}
		if !t.done { // deliberately unlocked read: an early return is a race the detector reports
			return &simh.Violation{Class: "lifecycle/early-return", Message: fmt.Sprintf("free-running: target %d not finished at return", t.id)}
		}
	}
	for _, t := range sortedTargets(h) {
		if v := checkDelivery(w, t); v != nil {
			return v
		}
	}
	return nil
}

// ------------------------------------------------------------------------------------
// entry point

func TestVerifPipesim(t *testing.T) {
	job, err := simh.LoadJob()
	if err != nil {
		t.Fatal(err)
	}
	if job == nil {
		t.Skip("no VERIF_JOB")
	}
	out, err := simh.OpenOut(job.Out)
	if err != nil {
		t.Fatal(err)
	}
	defer out.Close()
	runLog = simh.NewRunLog(job.Out + ".log")
	log.SetOutput(runLog)
	switch job.Mode {
	case "explore", "selftest":
		// all simulated runs of this process in ONE bubble (see simh.InBubble)
		simh.InBubble(t, func() { explore(t, job, out) })
	case "candidates":
		if strings.HasSuffix(job.Engine, "-free") {
			candidates(t, job, out) // free-running replays: real clock, no bubble
		} else {
			simh.InBubble(t, func() { candidates(t, job, out) })
		}
	case "race":
		racePass(t, job, out)
	default:
		simh.Fatalf("unknown mode %q", job.Mode)
	}
}

func mkReplay(job *simh.Job, seed uint64, w workload, fp simrt.FaultPlan, mp simrt.MapPolicy, mapSeed uint64, rr runResult) replayFile {
	return replayFile{Property: job.Property, Engine: "pipesim", Mix: job.Mix, Seed: seed, Workload: w, Faults: fp,
		MapPolicy: mp.String(), MapSeed: mapSeed, Tape: rr.sim.Tape, Violation: rr.violation,
		ShrinkArrays: []string{"workload.more", "workload.features", "workload.targets", "workload.features.*.parts", "workload.features.*.cols", "workload.more.*.features", "workload.more.*.targets"},
		ShrinkInts:   []string{"workload.snap_yields", "workload.src_yields", "workload.tgt_yields", "workload.flush.*", "workload.flush_sleep_ms.*", "workload.recv_sleep_ms.*", "workload.snap_sleep_ms", "workload.src_sleep_ms", "workload.src_linger_ms"},
		Trace:        rr.sim.Trace}
}

func explore(t *testing.T, job *simh.Job, out *simh.Out) {
	sum := simh.NewSummary("pipesim", job.Mode, job.SeedLo)
	digests := simh.NewDigestSet(2000000)
	dl := simh.NewDeadline(job.BudgetS)
	t0 := simh.RealNow()
	selftest := job.Mode == "selftest"
	for seed := job.SeedLo; seed < job.SeedHi; seed++ {
		if dl.Expired() {
			break
		}
		out.Line(map[string]interface{}{"t": "start", "seed": seed})
		runLog.Reset()
		w, fp, mp, mapSeed := genWorkload(seed, job.Mix)
		if p := job.Extra["stream"]; p != "" {
			// diagnostic re-run of a seed whose run killed the process: stream the replay
			// file and every scheduling decision to disk as they happen
			so, err := simh.OpenOut(p)
			if err != nil {
				simh.Fatalf("%v", err)
			}
			so.Line(map[string]interface{}{"t": "replay", "replay": mkReplay(job, seed, w, fp, mp, mapSeed, runResult{})})
			tapeSink = func(x uint32) { so.Line(map[string]interface{}{"t": "tape", "x": x}) }
		}
		onFatal = func(v *simh.Violation) {
			if job.Property == "C10" && v.Class == "lifecycle/goroutine-leak" {
				// a C11 matter; this process cannot leave the bubble, so it ends here
				sum.Oracles.Inc("C11-matter-observed-not-reported-under-C10:" + v.Class)
				sum.Notes = append(sum.Notes, "engine process ended early: a goroutine of the pipeline stays alive on a timer")
				sum.SeedNext = seed
				simh.WriteDigests(job.Out+".digests", digests.Slice())
				out.Line(sum)
				os.Exit(0)
			}
			rr := runResult{violation: v}
			out.Line(map[string]interface{}{"t": "violation", "seed": seed, "replay": mkReplay(job, seed, w, fp, mp, mapSeed, rr)})
			os.Exit(0)
		}
		wantSample := len(sum.Samples) < job.Samples && len(w.Features) >= 1 && len(w.Features) <= 4 && len(w.Targets) >= 2
		rr := runSim(t, &w, fp, mp, mapSeed, seed, nil, false, selftest || wantSample)
		sum.Runs++
		sum.SeedNext = seed + 1
		sum.Steps += int64(rr.sim.Steps)
		sum.SimTimeMs += rr.sim.SimTime.Milliseconds()
		for k, v := range rr.sim.Fired {
			sum.Fired.Add(k, int64(v))
		}
		if rr.mapStats.Effective > 0 {
			sum.Fired.Add("map-perm", int64(rr.mapStats.Effective))
		}
		for k, v := range rr.mapStats.PerSite {
			sum.MapSites.Add(k, int64(v))
		}
		sum.Probes.Merge(rr.probes)
		sum.Probes.Inc("policy=" + fp.Policy.String())
		sum.Probes.Inc("map-policy=" + mp.String())
		sum.Oracles.Inc("delivery-oracle-runs")
		sum.Oracles.Inc("wait-for-all-oracle-runs")
		if rr.nontriv {
			sum.NonTrivial++
			digests.Add(rr.sim.Digest)
		}
		if selftest {
			out.Line(map[string]interface{}{"t": "digest", "seed": seed, "digest": strconv.FormatUint(rr.sim.Digest, 16),
				"steps": rr.sim.Steps, "trace_hash": strconv.FormatUint(simrt.HashString(strings.Join(rr.sim.Trace, "\n")), 16)})
		}
		if rr.violation != nil && job.Property == "C10" &&
			(rr.violation.Class == "lifecycle/early-return" || rr.violation.Class == "lifecycle/goroutine-leak") {
			// when the call returns and what it leaves behind is C11's statement, not C10's:
			// everything was delivered correctly in the end (the delivery oracle ran)
			sum.Oracles.Inc("C11-matter-observed-not-reported-under-C10:" + rr.violation.Class)
			if v := deliveryOnly(&w, rr); v != nil {
				rr.violation = v
			} else {
				rr.violation = nil
			}
		}
		if rr.violation != nil && job.IsKnown(rr.violation.Class) {
			sum.Oracles.Inc("known:" + rr.violation.Class)
		} else if rr.violation != nil {
			if !rrHasTrace(rr) {
				// re-run with the recorded tape to obtain the trace (also a first replay check)
				rr2 := runSim(t, &w, fp, mp, mapSeed, seed, rr.sim.Tape, true, true)
				if rr2.violation != nil && rr2.violation.Class == rr.violation.Class {
					rr = rr2
				}
				// (otherwise: state kept across calls by the code under test may be involved; the
				// driver confirms in a fresh process, with a prelude of preceding seeds if needed)
			}
			out.Line(map[string]interface{}{"t": "violation", "seed": seed, "replay": mkReplay(job, seed, w, fp, mp, mapSeed, rr)})
			break
		}
		if wantSample {
			b, _ := json.Marshal(map[string]interface{}{"seed": seed, "workload": w, "faults": fp, "map_policy": mp.String(),
				"schedule_tape": rr.sim.Tape, "trace": rr.sim.Trace, "delivered_feature_ids_per_target": rr.deliv})
			sum.Samples = append(sum.Samples, b)
		}
	}
	simh.WriteDigests(job.Out+".digests", digests.Slice())
	sum.DigestsTotal = int64(digests.Len())
	sum.WallS = simh.RealNow().Sub(t0).Seconds()
	out.Line(sum)
}

var runLog *simh.RunLog

// deliveryOnly: the delivery oracle's verdict for a run in which only a C11 matter was seen.
// An early return stops the run before the stragglers deliver, so nothing can be said about
// delivery there; a leak is found after everything was delivered.
func deliveryOnly(w *workload, rr runResult) *simh.Violation { return rr.deliveryViolation }

func rrHasTrace(rr runResult) bool { return len(rr.sim.Trace) > 0 }

func candidates(t *testing.T, job *simh.Job, out *simh.Out) {
	for i, raw := range job.Candidates {
		var rf replayFile
		if err := json.Unmarshal(raw, &rf); err != nil {
			simh.Fatalf("candidate %d: %v", i, err)
		}
		out.Line(map[string]interface{}{"t": "start", "cand": i})
		runLog.Reset()
		mp, ok := simrt.ParseMapPolicy(rf.MapPolicy)
		if !ok {
			simh.Fatalf("candidate %d: bad map policy %q", i, rf.MapPolicy)
		}
		class, msg := "", ""
		var trace []string
		var tape []uint32
		ci := i
		onFatal = func(v *simh.Violation) {
			out.Line(map[string]interface{}{"t": "cand", "cand": ci, "class": v.Class, "message": v.Message})
			os.Exit(0)
		}
		for k := rf.Prelude; k >= 1; k-- {
			if rf.Seed >= uint64(k) {
				pw, pfp, pmp, pms := genWorkload(rf.Seed-uint64(k), rf.Mix)
				if rf.Engine == "pipesim-free" {
					runFree(&pw)
				} else {
					runSim(t, &pw, pfp, pmp, pms, rf.Seed-uint64(k), nil, false, false)
				}
			}
		}
		if rf.Engine == "pipesim-free" {
			if v := runFree(&rf.Workload); v != nil {
				class, msg = v.Class, v.Message
			}
		} else {
			rr := runSim(t, &rf.Workload, rf.Faults, mp, rf.MapSeed, rf.Seed, rf.Tape, true, true)
			if rr.violation != nil {
				class, msg = rr.violation.Class, rr.violation.Message
			}
			trace, tape = rr.sim.Trace, rr.sim.Tape
		}
		out.Line(map[string]interface{}{"t": "cand", "cand": i, "class": class, "message": msg, "trace": trace, "tape": tape})
		if job.WantClass != "" && class == job.WantClass {
			break
		}
	}
	out.Line(map[string]interface{}{"t": "done"})
}

func racePass(t *testing.T, job *simh.Job, out *simh.Out) {
	sum := simh.NewSummary("pipesim-free", job.Mode, job.SeedLo)
	dl := simh.NewDeadline(job.BudgetS)
	t0 := simh.RealNow()
	for seed := job.SeedLo; seed < job.SeedHi; seed++ {
		if dl.Expired() {
			break
		}
		out.Line(map[string]interface{}{"t": "start", "seed": seed})
		runLog.Reset()
		w, fp, mp, mapSeed := genWorkload(seed, job.Mix)
		// in the free-running pass the slowness knobs become tiny real pauses (see jitter);
		// keep them small and only on short streams
		if len(w.Features) > 30 {
			w.SnapYields, w.SrcYields = 0, 0
			if len(w.Features) <= 2000 {
				w.TgtYields = 0 // (a table of thousands keeps its slow targets: lagging and catching up matters there)
			}
		}
		if p := job.Extra["stream"]; p != "" {
			so, err := simh.OpenOut(p)
			if err != nil {
				simh.Fatalf("%v", err)
			}
			so.Line(map[string]interface{}{"t": "replay", "replay": replayFile{Property: job.Property, Engine: "pipesim-free", Mix: job.Mix, Seed: seed, Workload: w, Faults: fp,
				MapPolicy: mp.String(), MapSeed: mapSeed, ShrinkArrays: []string{"workload.more", "workload.features", "workload.targets", "workload.more.*.features"}}})
			so.Close()
		}
		v := runFree(&w)
		sum.Runs++
		sum.SeedNext = seed + 1
		if len(w.Features) > 0 {
			sum.NonTrivial++
		}
		if v != nil && job.Property == "C10" && (v.Class == "lifecycle/early-return" || v.Class == "lifecycle/hang-free-running") {
			sum.Oracles.Inc("C11-matter-observed-not-reported-under-C10:" + v.Class)
			v = nil
		}
		if v != nil {
			rf := replayFile{Property: job.Property, Engine: "pipesim-free", Mix: job.Mix, Seed: seed, Workload: w, Faults: fp,
				MapPolicy: mp.String(), MapSeed: mapSeed, Violation: v,
				ShrinkArrays: []string{"workload.more", "workload.features", "workload.targets", "workload.more.*.features"}}
			out.Line(map[string]interface{}{"t": "violation", "seed": seed, "replay": rf})
			break
		}
	}
	sum.WallS = simh.RealNow().Sub(t0).Seconds()
	out.Line(sum)
	_ = os.Stdout
}
