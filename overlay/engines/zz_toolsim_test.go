//go:build verif && go1.25

// toolsim: the whole texel command line tool in one process. main() is called with
// os.Args set — real flag parsing, tile matrix set validation, path construction,
// overwrite handling, source and target GeoPackages on tmpfs, the per-table loop, the
// real reader, snap.SnapPolygon, router and N writers — inside a synctest bubble under
// the seeded scheduler and the map-order seam. Afterwards every file the tool left is
// read back with the harness's own decoder and compared with a reference model whose
// geometry comes from calling the snapping library directly. Decides C13.
package main

import (
	"encoding/json"
	"fmt"
	"log"
	"math"
	"os"
	"os/exec"
	"path/filepath"
	"sort"
	"strconv"
	"strings"
	"testing"

	"github.com/go-spatial/geom"
	"github.com/pdok/texel/internal/gpkgh"
	"github.com/pdok/texel/internal/simh"
	"github.com/pdok/texel/internal/simrt"
	_ "github.com/pdok/texel/internal/spatialstub"
	"github.com/pdok/texel/snap"
	"github.com/pdok/texel/tms20"
)

// forceOutsideGrid (real-binary cross-check only): a polygon partly outside the grid
// WITHOUT the ignore flag; the library panics, so the tool must exit non-zero.
func forceOutsideGrid(w *twork, seed uint64) {
	r := simrt.NewRNG(seed, "toolsim-outside")
	t := loadTMS(w.TMS)
	g := gridOf(t)
	for ti := range w.Source.Tables {
		tb := &w.Source.Tables[ti]
		if tb.GeomType != gpkgh.TPolygon || !tb.Spatial {
			continue
		}
		w.IgnoreOut = false
		var row gpkgh.Row
		for _, col := range tb.Columns {
			if col.Name == tb.GeomCol {
				continue
			}
			switch {
			case col.PK:
				row.Vals = append(row.Vals, gpkgh.IntVal(9000000))
			case strings.HasPrefix(col.Type, "TEXT"):
				row.Vals = append(row.Vals, gpkgh.TextVal("outside"))
			case col.Type == "REAL" || col.Type == "DOUBLE":
				row.Vals = append(row.Vals, gpkgh.FloatVal(1))
			default:
				row.Vals = append(row.Vals, gpkgh.IntVal(1))
			}
		}
		row.Geom = &gpkgh.G{T: gpkgh.TPolygon, L: genPolygon(r, t, g, w.IDs, true)}
		tb.Rows = append(tb.Rows, row)
		w.ExpectFailure = true
		return
	}
}

// hasOutsidePolygon: does a polygon table hold a polygon with a vertex clearly left of the
// grid while the ignore flag is off?
func hasOutsidePolygon(w *twork) bool {
	if w.IgnoreOut || len(w.IDs) == 0 {
		return false
	}
	t := loadTMS(w.TMS)
	g := gridOf(t)
	deep := w.IDs[0]
	for _, id := range w.IDs {
		if id > deep {
			deep = id
		}
	}
	res := pixelOf(t, g, deep)
	for _, tb := range w.Source.Tables {
		if !tb.Spatial || tb.GeomType != gpkgh.TPolygon {
			continue
		}
		for _, row := range tb.Rows {
			if row.Geom == nil || row.Geom.T != gpkgh.TPolygon {
				continue
			}
			for _, ring := range row.Geom.L {
				for _, p := range ring {
					if p[0] < g.minX-2*res {
						return true
					}
				}
			}
		}
	}
	return false
}

type twork struct {
	TMS       string `json:"tms"`
	IDs       []int  `json:"ids"`
	PageSize  int    `json:"page_size"`
	Keep      bool   `json:"keep_points_and_lines"`
	IgnoreOut bool   `json:"ignore_outside_grid"`
	Reverse   bool   `json:"reverse_winding_order"`
	Overwrite bool   `json:"overwrite"`
	Spelling  uint64 `json:"spelling"`    // decides short/long spellings, bool forms and flag order
	TargetRel string `json:"target_path"` // relative to the run directory
	Existing  string `json:"existing"`    // none | previous | truncated | empty | garbage
	// ExistingMask: which ids have a pre-existing target file (bit id%64); an earlier run
	// may have used another id list
	ExistingMask uint64       `json:"existing_mask"`
	Source       gpkgh.Source `json:"source"`
	Decoys       bool         `json:"decoys"`
	// ExpectFailure: the configuration is one on which the tool must exit non-zero
	ExpectFailure bool `json:"expect_failure,omitempty"`
}

type replayFile struct {
	Property     string          `json:"property"`
	Engine       string          `json:"engine"`
	Seed         uint64          `json:"seed"`
	Workload     twork           `json:"workload"`
	Faults       simrt.FaultPlan `json:"faults"`
	MapPolicy    string          `json:"map_policy"`
	MapSeed      uint64          `json:"map_seed"`
	Tape         []uint32        `json:"tape"`
	Violation    *simh.Violation `json:"violation,omitempty"`
	ShrinkArrays []string        `json:"shrink_arrays"`
	ShrinkInts   []string        `json:"shrink_ints"`
	Trace        []string        `json:"trace,omitempty"`
	Args         []string        `json:"command_line,omitempty"`
	Prelude      int             `json:"prelude,omitempty"` // preceding seeds to run first
}

var shrinkArrays = []string{"workload.source.tables", "workload.source.tables.*.rows", "workload.ids"}

var okTMS = []string{"NetherlandsRDNewQuad", "WebMercatorQuad", "WorldMercatorWGS84Quad", "EuropeanETRS89_LAEAQuad", "NZTM2000Quad", "UPSAntarcticWGS84Quad", "UPSArcticWGS84Quad"}

var tmsCache = map[string]tms20.TileMatrixSet{}

func loadTMS(name string) tms20.TileMatrixSet {
	if t, ok := tmsCache[name]; ok {
		return t
	}
	t, err := tms20.LoadEmbeddedTileMatrixSet(name)
	if err != nil {
		simh.Fatalf("tms %s: %v", name, err)
	}
	tmsCache[name] = t
	return t
}

var pragmaCols = map[string]bool{"cid": true, "name": true, "type": true, "notnull": true, "dflt_value": true, "pk": true,
	"oid": true, "rowid": true, "_rowid_": true, "arg": true, "schema": true} // incl. the hidden columns and rowid aliases of the table-valued function

// column and table names that are SQL keywords are legal (quoted) in a GeoPackage
var sqlKeywords = []string{"order", "group", "select", "table", "index", "else", "from", "where", "default", "check", "primary", "unique", "values", "key", "to", "as", "by", "in", "is", "not", "null", "on", "or", "and", "all", "add", "set", "row", "end", "case", "when", "then", "limit", "offset", "union", "join", "left", "exists", "between", "like", "desc", "asc"}

func ident(r *simrt.RNG, used map[string]bool) string {
	first := "abcdefghijklmnopqrstuvwxyz"
	rest := "abcdefghijklmnopqrstuvwxyz0123456789_"
	if r.Chance(0.25) { // mixed case now and then
		first += "ABCDEFGHIJKLMNOPQRSTUVWXYZ"
		rest += "ABCDEFGHIJKLMNOPQRSTUVWXYZ"
	}
	for {
		if r.Chance(0.08) {
			k := sqlKeywords[r.Intn(len(sqlKeywords))]
			if !used[k] {
				used[k] = true
				return k
			}
		}
		n := 1 + r.Intn(10)
		b := []byte{first[r.Intn(len(first))]}
		for i := 1; i < n; i++ {
			b = append(b, rest[r.Intn(len(rest))])
		}
		s := string(b)
		if len(s) < 2 {
			s += "_c"
		}
		// (cid, name, type, notnull, dflt_value, pk: go-spatial looks the primary key up with
		// pragma_table_info(("<table>")), where such a table name resolves to a column)
		if used[strings.ToLower(s)] || pragmaCols[strings.ToLower(s)] || strings.HasPrefix(strings.ToLower(s), "gpkg_") || strings.HasPrefix(strings.ToLower(s), "rtree_") || strings.HasPrefix(strings.ToLower(s), "sqlite_") {
			continue
		}
		used[strings.ToLower(s)] = true // SQLite identifiers are case-insensitive
		return s
	}
}

func pathElem(r *simrt.RNG) string {
	const alpha = "ABCDEFGHIJKLMNOPQRSTUVWXYZabcdefghijklmnopqrstuvwxyz0123456789_.-"
	for {
		n := 1 + r.Intn(9)
		b := make([]byte, n)
		for i := range b {
			b[i] = alpha[r.Intn(len(alpha))]
		}
		s := string(b)
		if s == "." || s == ".." || s[0] == '-' {
			continue
		}
		return s
	}
}

type grid struct{ minX, minY, span float64 }

func gridOf(t tms20.TileMatrixSet) grid {
	bl, tr, err := t.MatrixBoundingBox(0)
	if err != nil {
		simh.Fatalf("bbox: %v", err)
	}
	return grid{bl[0], bl[1], tr[0] - bl[0]}
}

func pixelOf(t tms20.TileMatrixSet, g grid, id int) float64 {
	root := t.TileMatrices[0]
	levelDiff := uint(math.Log2(float64(root.TileWidth))) + 4
	return g.span / float64(uint64(1)<<(uint(id)+levelDiff))
}

// star: counter-clockwise star-shaped ring on the lattice.
func star(r *simrt.RNG, cx, cy, rmin, rmax float64, n int, unit float64) [][2]float64 {
	var ring [][2]float64
	for i := 0; i < n; i++ {
		a := (float64(i) + 0.8*r.Float()) * 2 * math.Pi / float64(n)
		rad := rmin + r.Float()*(rmax-rmin)
		p := [2]float64{math.Round((cx+rad*math.Cos(a))/unit) * unit, math.Round((cy+rad*math.Sin(a))/unit) * unit}
		if len(ring) > 0 && ring[len(ring)-1] == p {
			continue
		}
		ring = append(ring, p)
	}
	if len(ring) > 1 && ring[0] == ring[len(ring)-1] {
		ring = ring[:len(ring)-1]
	}
	return ring
}

func genPolygon(r *simrt.RNG, t tms20.TileMatrixSet, g grid, ids []int, outside bool) [][][2]float64 {
	deep := ids[0]
	for _, id := range ids {
		if id > deep {
			deep = id
		}
	}
	unit := pixelOf(t, g, deep) / 8
	ref := ids[r.Intn(len(ids))]
	pix := pixelOf(t, g, ref)
	size := pix * (0.3 + 10*r.Float()*r.Float())
	if size > g.span/8 {
		size = g.span / 8
	}
	margin := size + 4*unit
	cx := g.minX + margin + r.Float()*(g.span-2*margin)
	cy := g.minY + margin + r.Float()*(g.span-2*margin)
	if outside {
		// straddles the left edge of the grid
		cx = g.minX + size*0.2
	}
	rings := [][][2]float64{star(r, cx, cy, size/3, size, 3+r.Intn(14), unit)}
	if outside {
		// keep clear of the band of one deepest pixel just outside the edge: there the library
		// does not recognise a vertex as outside (truncating division, another property's
		// business) and panics instead of skipping the polygon
		res := pixelOf(t, g, deep)
		left := 0
		for i, p := range rings[0] {
			if p[0] < g.minX && p[0] > g.minX-3*res {
				rings[0][i][0] = g.minX - 3*res
			}
			if rings[0][i][0] < rings[0][left][0] {
				left = i
			}
		}
		// a star of three or four points around a centre just inside the edge can lie inside
		// altogether: push its leftmost vertex out
		if rings[0][left][0] >= g.minX {
			rings[0][left][0] = g.minX - 3*res - math.Round(size/2/unit)*unit
		}
	}
	if r.Chance(0.25) && size > 12*unit {
		hole := star(r, cx, cy, size/12, size/5, 3+r.Intn(6), unit)
		for i, j := 0, len(hole)-1; i < j; i, j = i+1, j-1 {
			hole[i], hole[j] = hole[j], hole[i]
		}
		if len(hole) >= 3 {
			rings = append(rings, hole)
		}
	}
	return rings
}

var copyTypes = []string{gpkgh.TPoint, gpkgh.TLineString, gpkgh.TMultiPoint, gpkgh.TMultiLineString}

func genCopyGeom(r *simrt.RNG, typ string, g grid) *gpkgh.G {
	pt := func() [2]float64 {
		return [2]float64{g.minX + g.span*r.Float(), g.minY + g.span*r.Float()}
	}
	pts := func(n int) [][2]float64 {
		out := make([][2]float64, 0, n)
		for i := 0; i < n; i++ {
			out = append(out, pt())
		}
		return out
	}
	empty := r.Chance(0.08)
	out := &gpkgh.G{T: typ}
	if empty && r.Chance(0.3) {
		// empty although it has members
		switch typ {
		case gpkgh.TCollection:
			out.C = []*gpkgh.G{{T: gpkgh.TPoint, P: [][2]float64{}}}
			return out
		case gpkgh.TMultiLineString:
			out.L = [][][2]float64{{}}
			return out
		}
	}
	switch typ {
	case gpkgh.TCollection:
		if !empty {
			for i, n := 0, 1+r.Intn(3); i < n; i++ {
				member := []string{gpkgh.TPoint, gpkgh.TLineString, gpkgh.TMultiPoint}[r.Intn(3)]
				m := genCopyGeom(r, member, g)
				if member == gpkgh.TPoint {
					m.P = pts(1)
				}
				out.C = append(out.C, m)
			}
		}
	case gpkgh.TPoint:
		out.P = pts(1)
		if empty {
			out.P = [][2]float64{} // POINT EMPTY
		}
	case gpkgh.TLineString:
		if !empty {
			out.P = pts(2 + r.Intn(4))
		}
	case gpkgh.TMultiPoint:
		if !empty {
			out.P = pts(1 + r.Intn(4))
		}
	case gpkgh.TMultiLineString:
		if !empty {
			for i := 0; i < 1+r.Intn(3); i++ {
				out.L = append(out.L, pts(2+r.Intn(3)))
			}
		}
	}
	return out
}

func genTable(r *simrt.RNG, used map[string]bool, srs gpkgh.SRS, t tms20.TileMatrixSet, g grid, w *twork, nullGeoms bool, prefixOf string) gpkgh.Table {
	tb := gpkgh.Table{Name: ident(r, used), Spatial: true, SRSID: srs.ID}
	if prefixOf != "" { // table names that contain one another
		if r.Chance(0.5) && len(prefixOf) > 4 {
			// the new (later) name is contained in an earlier one
			lo := r.Intn(2)
			cand := prefixOf[lo : lo+3+r.Intn(len(prefixOf)-3-lo)]
			lc := strings.ToLower(cand)
			if ((cand[0] >= 'a' && cand[0] <= 'z') || (cand[0] >= 'A' && cand[0] <= 'Z')) && !used[lc] && !pragmaCols[lc] && cand != prefixOf {
				tb.Name = cand
				used[lc] = true
			}
		} else {
			for _, suf := range []string{"_1", "x", "_" + prefixOf} {
				if !used[strings.ToLower(prefixOf+suf)] {
					tb.Name = prefixOf + suf
					used[strings.ToLower(tb.Name)] = true
					break
				}
			}
		}
	}
	switch x := r.Intn(12); {
	case x < 4:
		tb.GeomType = gpkgh.TPolygon
	case x < 6:
		tb.GeomType = gpkgh.TMultiPolygon
	case x < 7:
		tb.GeomType = gpkgh.TGeometry // any type per row: polygons are snapped, the rest is copied
	case x < 8:
		tb.GeomType = gpkgh.TCollection
	default:
		tb.GeomType = copyTypes[r.Intn(len(copyTypes))]
	}
	cused := map[string]bool{}
	tb.GeomCol = ident(r, cused)
	otherGeom := ""
	if len(w.Source.Tables) > 0 && r.Chance(0.3) {
		otherGeom = w.Source.Tables[r.Intn(len(w.Source.Tables))].GeomCol
	}
	pk := gpkgh.Column{Name: ident(r, cused), Type: "INTEGER", PK: true, NotNull: r.Chance(0.5), AutoInc: r.Chance(0.4)}
	if r.Chance(0.08) {
		// INT PRIMARY KEY is an ordinary unique column, not an alias of the rowid: the rows keep
		// the order in which they were inserted, whatever their keys (shuffled below)
		pk.Type, pk.AutoInc = "INT", false
	}
	var attrs []gpkgh.Column
	nattr := r.Intn(5)
	if r.Chance(0.03) {
		nattr = 30 + r.Intn(50) // a wide table
	}
	for i, n := 0, nattr; i < n; i++ {
		typ := []string{"INTEGER", "REAL", "TEXT", "DOUBLE", "MEDIUMINT", "TEXT(20)", "Integer", "text", "Real", "DOUBLE PRECISION", "VARCHAR(10)", "BLOB", "BOOLEAN", "DATE", "DATETIME", "BIGINT", "NUMERIC", "DECIMAL(10,2)"}[r.Intn(18)]
		col := gpkgh.Column{Name: ident(r, cused), Type: typ, NotNull: r.Chance(0.3)}
		if r.Chance(0.12) {
			switch strings.ToUpper(strings.Split(typ, "(")[0]) {
			case "INTEGER", "MEDIUMINT", "BOOLEAN":
				col.Default = []string{"0", "1", "-7"}[r.Intn(3)]
			case "REAL", "DOUBLE", "DOUBLE PRECISION":
				col.Default = []string{"0.5", "1e3", "0"}[r.Intn(3)]
			case "TEXT", "VARCHAR":
				col.Default = []string{"''", "'n/a'", "'0'"}[r.Intn(3)]
			}
		}
		attrs = append(attrs, col)
	}
	if otherGeom != "" && !cused[strings.ToLower(otherGeom)] && len(attrs) > 0 {
		// an attribute column named like the geometry column of another table
		attrs[r.Intn(len(attrs))].Name = otherGeom
		cused[strings.ToLower(otherGeom)] = true
	}
	// the primary key is usually the first column, not always
	cols := append([]gpkgh.Column{pk}, attrs...)
	if len(attrs) > 0 && r.Chance(0.25) {
		k := 1 + r.Intn(len(attrs))
		cols[0], cols[k] = cols[k], cols[0]
	}
	pos := r.Intn(len(cols) + 1)
	tb.Columns = append(tb.Columns, cols[:pos]...)
	geomNotNull := r.Chance(0.3)
	if geomNotNull {
		nullGeoms = false
	}
	tb.Columns = append(tb.Columns, gpkgh.Column{Name: tb.GeomCol, Type: tb.GeomType, NotNull: geomNotNull})
	tb.Columns = append(tb.Columns, cols[pos:]...)
	fidBase := int64(0)
	if len(w.Source.Tables) > 0 && r.Chance(0.12) {
		// a twin of an earlier table: same column names and types, same geometry column and
		// type, another name and other rows
		like := w.Source.Tables[r.Intn(len(w.Source.Tables))]
		if like.Spatial {
			tb.GeomType, tb.GeomCol = like.GeomType, like.GeomCol
			tb.Columns = append([]gpkgh.Column(nil), like.Columns...)
			k := 0
			for _, c := range like.Columns {
				if c.Name == like.GeomCol {
					if c.NotNull {
						nullGeoms = false
					}
					continue
				}
				if c.PK && r.Chance(0.6) {
					for _, row := range like.Rows {
						if v := row.Vals[k].I; v != nil && *v >= fidBase && *v < 1<<40 {
							fidBase = *v + 1
						}
					}
				}
				k++
			}
		}
	}
	var n int
	switch x := r.Intn(10); {
	case x < 1:
		n = 0
	case x < 7:
		n = 1 + r.Intn(6)
	default:
		n = 7 + r.Intn(24)
	}
	if r.Chance(0.2) { // around a page multiple
		n = w.PageSize*(1+r.Intn(2)) + r.Intn(3) - 1
		if n > 40 {
			n = 40
		}
		if n < 0 {
			n = 0
		}
	}
	if r.Chance(0.012) && tb.GeomType != gpkgh.TPolygon && tb.GeomType != gpkgh.TMultiPolygon && tb.GeomType != gpkgh.TGeometry {
		n = 1050 + r.Intn(1500) // now and then a table longer than the default page (1000 rows)
		w.PageSize = []int{1000, 1000, 999, 1024, 512}[r.Intn(5)]
	}
	if r.Chance(0.015) && tb.GeomType != gpkgh.TPolygon && tb.GeomType != gpkgh.TMultiPolygon && tb.GeomType != gpkgh.TGeometry {
		// row counts at round numbers: batch sizes, buffer sizes and limits are chosen there
		n = []int{100, 128, 200, 250, 256, 500, 512, 1000, 1024, 1500, 2000, 2048}[r.Intn(12)]
		if r.Chance(0.3) {
			n += 1 - 2*r.Intn(2) // one more, one less
		}
		if r.Chance(0.5) {
			w.PageSize = []int{1000, 500, 250, 100, 64}[r.Intn(5)]
		}
	}
	fid := fidBase + int64(1+r.Intn(100))
	for i := 0; i < n; i++ {
		var row gpkgh.Row
		for _, col := range tb.Columns {
			if col.Name == tb.GeomCol {
				continue
			}
			if col.PK {
				row.Vals = append(row.Vals, gpkgh.IntVal(fid))
				fid += int64(1 + r.Intn(3))
				continue
			}
			if !col.NotNull && r.Chance(0.2) {
				row.Vals = append(row.Vals, gpkgh.Val{})
				continue
			}
			switch strings.ToUpper(strings.Split(col.Type, "(")[0]) {
			case "INTEGER", "MEDIUMINT", "BIGINT", "NUMERIC", "DECIMAL":
				v := int64(r.Uint64()%2000001) - 1000000
				if r.Chance(0.1) {
					v = int64(r.Uint64()>>2) - (1 << 61) // beyond 2^53
				}
				if r.Chance(0.03) {
					v = []int64{math.MaxInt64, math.MinInt64, 0, -1}[r.Intn(4)]
				}
				row.Vals = append(row.Vals, gpkgh.IntVal(v))
			case "BOOLEAN":
				row.Vals = append(row.Vals, gpkgh.IntVal(int64(r.Intn(2))))
			case "DATE":
				row.Vals = append(row.Vals, gpkgh.TextVal(fmt.Sprintf("20%02d-%02d-%02d", r.Intn(30), 1+r.Intn(12), 1+r.Intn(28))))
			case "DATETIME":
				row.Vals = append(row.Vals, gpkgh.TextVal(fmt.Sprintf("20%02d-%02d-%02dT%02d:%02d:%02d.%03dZ", r.Intn(30), 1+r.Intn(12), 1+r.Intn(28), r.Intn(24), r.Intn(60), r.Intn(60), r.Intn(1000))))
			case "BLOB":
				b := make([]byte, 1+r.Intn(12))
				for k := range b {
					b[k] = byte(r.Uint64())
				}
				row.Vals = append(row.Vals, gpkgh.BlobVal(string(b)))
			case "REAL", "DOUBLE", "DOUBLE PRECISION":
				v := float64(int64(r.Uint64()%2000001)-1000000) / 128
				if r.Chance(0.15) {
					v = float64(int64(r.Uint64()%2001) - 1000) // a whole number stays REAL
				}
				if r.Chance(0.03) {
					v = []float64{1e308, -1e308, 5e-324, 0.1}[r.Intn(4)] // (SQLite does not keep the sign of -0.0)
				}
				row.Vals = append(row.Vals, gpkgh.FloatVal(v))
			default:
				v := fmt.Sprintf("%s-%d-%x", tb.Name, i, r.Uint64()%4096)
				switch r.Intn(12) {
				case 0:
					v = ""
				case 1:
					v = strconv.Itoa(r.Intn(100000)) // text that looks like a number
				case 2:
					v = "1e" + strconv.Itoa(r.Intn(9))
				case 3:
					v = "äöü € 漢字 it's \"quoted\"\nsecond line\t" + v
				case 4:
					v = strings.Repeat(v+" ", 200+r.Intn(800)) // a long text
				}
				row.Vals = append(row.Vals, gpkgh.TextVal(v))
			}
		}
		rowType := tb.GeomType
		if rowType == gpkgh.TGeometry {
			rowType = []string{gpkgh.TPolygon, gpkgh.TMultiPolygon, gpkgh.TPoint, gpkgh.TLineString, gpkgh.TMultiPoint, gpkgh.TMultiLineString, gpkgh.TCollection}[r.Intn(7)]
		}
		switch rowType {
		case gpkgh.TPolygon:
			row.Geom = &gpkgh.G{T: gpkgh.TPolygon, L: genPolygon(r, t, g, w.IDs, w.IgnoreOut && r.Chance(0.1))}
			if r.Chance(0.04) {
				row.Geom = &gpkgh.G{T: gpkgh.TPolygon, L: [][][2]float64{}} // POLYGON EMPTY: the library returns nothing for it
			}
		case gpkgh.TMultiPolygon:
			mp := &gpkgh.G{T: gpkgh.TMultiPolygon}
			for p, np := 0, 1+r.Intn(3); p < np; p++ {
				mp.M = append(mp.M, genPolygon(r, t, g, w.IDs, w.IgnoreOut && r.Chance(0.08)))
			}
			if r.Chance(0.04) {
				mp.M = [][][][2]float64{} // MULTIPOLYGON EMPTY
			}
			row.Geom = mp
		default:
			row.Geom = genCopyGeom(r, rowType, g)
			if nullGeoms && r.Chance(0.1) {
				row.Geom = nil
			}
		}
		tb.Rows = append(tb.Rows, row)
	}
	// INT PRIMARY KEY: keys in no particular order
	k := 0
	for _, col := range tb.Columns {
		if col.Name == tb.GeomCol {
			continue
		}
		if col.PK && col.Type == "INT" && len(tb.Rows) > 1 {
			perm := r.Perm(len(tb.Rows))
			vals := make([]gpkgh.Val, len(tb.Rows))
			for i := range tb.Rows {
				vals[i] = tb.Rows[perm[i]].Vals[k]
			}
			for i := range tb.Rows {
				tb.Rows[i].Vals[k] = vals[i]
			}
		}
		k++
	}
	return tb
}

func genWork(seed uint64) (twork, simrt.FaultPlan, simrt.MapPolicy, uint64) {
	r := simrt.NewRNG(seed, "toolsim-workload")
	var w twork
	w.TMS = okTMS[r.Intn(len(okTMS))]
	t := loadTMS(w.TMS)
	g := gridOf(t)
	maxID := 2 + r.Intn(9)
	n := 1 + r.Intn(4)
	if r.Chance(0.15) {
		n = 5 + r.Intn(3) // the README's own example asks for five
	}
	if n > maxID+1 {
		n = maxID + 1
	}
	w.IDs = append([]int(nil), r.Perm(maxID + 1)[:n]...)
	w.PageSize = 1 + r.Intn(50)
	if r.Chance(0.3) {
		w.PageSize = 1 + r.Intn(4)
	}
	if r.Chance(0.08) {
		w.PageSize = 1000
	}
	w.Keep, w.IgnoreOut, w.Reverse = r.Chance(0.5), r.Chance(0.5), r.Chance(0.4)
	w.Spelling = r.Uint64()
	// target path: 0..2 directories, with/without extension, several dots
	var parts []string
	for i, nd := 0, r.Intn(3); i < nd; i++ {
		parts = append(parts, pathElem(r))
	}
	file := pathElem(r)
	switch r.Intn(6) {
	case 0:
		file += ".gpkg"
	case 1:
		file = strings.ReplaceAll(file, ".", "x") // no extension at all
	case 2:
		// the extension's text also occurs earlier in the name
		ext := []string{".gpkg", ".1", ".x", ".db"}[r.Intn(4)]
		file = strings.ReplaceAll(file, ".", "_") + ext + ext
	}
	parts = append(parts, file)
	w.TargetRel = strings.Join(parts, "/")
	switch x := r.Intn(10); {
	case x < 4:
		w.Existing, w.Overwrite = "none", r.Chance(0.5)
	case x < 6:
		w.Existing, w.Overwrite = "previous", true
	case x < 7:
		w.Existing, w.Overwrite = "same-tables", true
		if r.Chance(0.5) {
			// the most realistic earlier content: what the tool itself wrote when it was run
			// before on an older state of the source
			w.Existing = "earlier-run"
		}
	case x < 8:
		w.Existing, w.Overwrite = "truncated", true
	case x < 9:
		w.Existing, w.Overwrite = "empty", true
	default:
		w.Existing, w.Overwrite = []string{"garbage", "garbage", "symlink", "empty-dir"}[r.Intn(4)], true
	}
	w.ExistingMask = ^uint64(0)
	if r.Chance(0.5) {
		w.ExistingMask = r.Uint64() | r.Uint64() // about three quarters of the ids
	}
	w.Decoys = r.Chance(0.5)
	// source
	nsrs := 1 + r.Intn(2)
	srss := []gpkgh.SRS{
		{Name: "Amersfoort / RD New", ID: 28992, Org: "EPSG", OrgID: 28992, Definition: `PROJCS["Amersfoort / RD New"]`, Description: "rd"},
		{Name: "made up", ID: 900000 + r.Intn(1000), Org: "NONE", OrgID: 7, Definition: "undefined", Description: ""},
		{Name: "WebMercator src", ID: 3857, Org: "epsg", OrgID: 3857, Definition: `PROJCS["WGS 84 / Pseudo-Mercator"]`, Description: "src"},
		// a second row for the same reference system under an id of its own
		{Name: "Amersfoort / RD New (alias)", ID: 100000 + r.Intn(1000), Org: "EPSG", OrgID: 28992, Definition: `PROJCS["Amersfoort / RD New"]`, Description: "alias"},
	}
	perm := r.Perm(len(srss))
	for i := 0; i < nsrs; i++ {
		w.Source.SRS = append(w.Source.SRS, srss[perm[i]])
	}
	if r.Chance(0.1) {
		w.Source.SRS = []gpkgh.SRS{srss[0], srss[3]} // both rows of the same reference system
		nsrs = 2
	}
	used := map[string]bool{}
	nullGeoms := r.Chance(0.25)
	for i, nt := 0, 1+r.Intn(4); i < nt; i++ {
		prefixOf := ""
		if i > 0 && r.Chance(0.3) {
			prefixOf = w.Source.Tables[r.Intn(i)].Name
		}
		w.Source.Tables = append(w.Source.Tables, genTable(r, used, w.Source.SRS[r.Intn(nsrs)], t, g, &w, nullGeoms, prefixOf))
	}
	if r.Chance(0.5) {
		w.Source.MetaSeed = 1 + r.Uint64()>>1
	}
	if r.Chance(0.5) {
		// a non-spatial table that must not be copied
		at := gpkgh.Table{Name: ident(r, used), Spatial: false}
		at.Columns = []gpkgh.Column{{Name: "id", Type: "INTEGER", PK: true}, {Name: "label", Type: "TEXT"}}
		for i := 0; i < r.Intn(4); i++ {
			at.Rows = append(at.Rows, gpkgh.Row{Vals: []gpkgh.Val{gpkgh.IntVal(int64(i + 1)), gpkgh.TextVal("x")}})
		}
		w.Source.Tables = append(w.Source.Tables, at)
	}

	fr := simrt.NewRNG(seed, "toolsim-faults")
	var fp simrt.FaultPlan
	fp.Policy = simrt.Policy(fr.Intn(4))
	fp.StallMax, fp.LateStartMax, fp.BurstMax = 2+fr.Intn(40), 2+fr.Intn(40), 1+fr.Intn(8)
	fp.SlowFrac = 0.1 + 0.4*fr.Float()
	fp.PCTDepth = 1 + fr.Intn(4)
	if fr.Chance(0.5) {
		fp.StallRate = 0.08 * fr.Float()
	}
	if fr.Chance(0.5) {
		fp.LateStartRate = 0.5 * fr.Float()
	}
	if fr.Chance(0.3) {
		fp.BurstRate = 0.15 * fr.Float()
	}
	if fr.Chance(0.2) {
		fp.ClockJumpRate = 0.02 * fr.Float()
		// C13 says nothing about how long the tool may take: the injected jumps of a run stay
		// within half a minute of simulated time, so that a generous timeout in the tool (ten
		// minutes to get a database connection, say) is never what decides a run
		fp.ClockJumpBudgetMs = 30000
	}
	mp := simrt.MapPolicy(1 + fr.Intn(5))
	return w, fp, mp, fr.Uint64()
}

// ------------------------------------------------------------------------------------
// command line

func buildArgs(w *twork, src, target string) []string {
	r := simrt.NewRNG(w.Spelling, "toolsim-args")
	pick := func(names ...string) string { return names[r.Intn(len(names))] }
	var groups [][]string
	val := func(names []string, v string) {
		n := pick(names...)
		if r.Chance(0.3) {
			groups = append(groups, []string{n + "=" + v})
		} else {
			groups = append(groups, []string{n, v})
		}
	}
	boolean := func(names []string, v bool) {
		n := pick(names...)
		switch {
		case v && r.Chance(0.7):
			groups = append(groups, []string{n})
		case v:
			groups = append(groups, []string{n + "=true"})
		case r.Chance(0.3):
			groups = append(groups, []string{n + "=false"})
		}
	}
	val([]string{"--sourceGpkg", "-s", "-sourceGpkg"}, src)
	val([]string{"--targetGpkg", "-t"}, target)
	val([]string{"--tilematrixset", "--tms", "-tms"}, w.TMS)
	ids, _ := json.Marshal(w.IDs)
	idStr := string(ids)
	if r.Chance(0.3) {
		idStr = strings.ReplaceAll(idStr, ",", ", ")
	}
	val([]string{"--tilematrices", "-z"}, idStr)
	if w.PageSize != 1000 || r.Chance(0.5) {
		val([]string{"--pagesize", "-p"}, strconv.Itoa(w.PageSize))
	}
	boolean([]string{"--overwrite", "-o"}, w.Overwrite)
	boolean([]string{"--keeppointsandlines", "--pl", "-pl"}, w.Keep)
	boolean([]string{"--ignoreoutsidegrid", "--iog", "-iog"}, w.IgnoreOut)
	boolean([]string{"--reversewindingorder", "--rwo", "-rwo"}, w.Reverse)
	args := []string{"texel"}
	for _, i := range r.Perm(len(groups)) {
		args = append(args, groups[i]...)
	}
	return args
}

// targetName is the model of the naming rule: _<id> goes before the extension of the
// last path element.
func targetName(target string, id int) string {
	dir, file := filepath.Split(target)
	ext := ""
	if i := strings.LastIndex(file, "."); i >= 0 {
		ext = file[i:]
	}
	return dir + strings.TrimSuffix(file, ext) + "_" + strconv.Itoa(id) + ext
}

// ------------------------------------------------------------------------------------
// reference model

type modelResult struct {
	tables map[int][]*gpkgh.ExpTable // per id
	skip   string                    // the library itself panics on an input: not a C13 matter
	probes simh.Counter
}

func snapParts(w *twork, parts [][][][2]float64) (per map[int][][][][2]float64, panicked string) {
	defer func() {
		if r := recover(); r != nil {
			panicked = fmt.Sprint(r)
		}
	}()
	per = map[int][][][][2]float64{}
	cfg := snap.Config{KeepPointsAndLines: w.Keep, IgnoreOutsideGrid: w.IgnoreOut, ReverseWindingOrder: w.Reverse}
	ids := append([]int(nil), w.IDs...)
	sort.Ints(ids)
	for _, p := range parts {
		res := snap.SnapPolygon(geom.Polygon(p), loadTMS(w.TMS), append([]int(nil), ids...), cfg)
		for id, polys := range res {
			for _, q := range polys {
				per[id] = append(per[id], q)
			}
		}
	}
	return per, ""
}

// buildModel predicts every target file. Attribute values are taken from reading the
// source file back (what SQLite actually stored, after column affinity), geometry for
// snapping from the workload (rings open, as the tool's reader hands them on).
func buildModel(w *twork, srcDump *gpkgh.FileDump) modelResult {
	m := modelResult{tables: map[int][]*gpkgh.ExpTable{}, probes: simh.Counter{}}
	simrt.SetMapOrder(simrt.MapSorted, 0)
	defer simrt.SetMapOrder(simrt.MapNative, 0)
	for ti := range w.Source.Tables {
		t := &w.Source.Tables[ti]
		if !t.Spatial {
			continue
		}
		per := map[int]*gpkgh.ExpTable{}
		for _, id := range w.IDs {
			per[id] = &gpkgh.ExpTable{Name: t.Name, Columns: t.Columns, GeomCol: t.GeomCol, GeomType: t.GeomType, SRSID: t.SRSID}
		}
		sd := srcDump.Tables[t.Name]
		if sd == nil || len(sd.Rows) != len(t.Rows) {
			simh.Fatalf("toolsim: source table %s read back with %d rows, wrote %d", t.Name, lenRows(sd), len(t.Rows))
		}
		for ri, row := range t.Rows {
			label := fmt.Sprintf("source row %d of %s", ri, t.Name)
			row.Vals = sd.Rows[ri].Vals
			poly := row.Geom != nil && (row.Geom.T == gpkgh.TPolygon || row.Geom.T == gpkgh.TMultiPolygon)
			if !poly {
				for _, id := range w.IDs {
					er := gpkgh.ExpRow{Vals: row.Vals, Geom: row.Geom, NullGeom: row.Geom == nil, Label: label}
					per[id].Rows = append(per[id].Rows, er)
				}
				if row.Geom == nil {
					m.probes.Inc("null-geometry-row")
				}
				continue
			}
			var parts [][][][2]float64
			if row.Geom.T == gpkgh.TPolygon {
				parts = [][][][2]float64{row.Geom.L}
			} else {
				parts = row.Geom.M
			}
			res, panicked := snapParts(w, parts)
			if panicked != "" {
				m.skip = "snap.SnapPolygon itself panics on " + label + ": " + panicked
				return m
			}
			kept, dropped, split := 0, 0, false
			for _, id := range w.IDs {
				polys := res[id]
				if len(polys) == 0 {
					dropped++
					continue
				}
				kept++
				if len(polys) > 1 {
					split = true
				}
				per[id].Rows = append(per[id].Rows, gpkgh.ExpRow{Vals: row.Vals, Polys: polys, Label: label})
			}
			if kept > 0 && dropped > 0 {
				m.probes.Inc("feature-kept-at-one-id-dropped-at-another")
			}
			if split {
				m.probes.Inc("feature-split-into-several-polygons")
			}
			if kept == 0 {
				m.probes.Inc("feature-dropped-everywhere")
			}
		}
		for _, id := range w.IDs {
			m.tables[id] = append(m.tables[id], per[id])
		}
	}
	// the earlier run of the tool (prepare) snaps the first half of every table with a subset
	// of the ids; the library may panic for that subset although it does not for the full list
	if ids := earlierIDs(w); w.Existing == "earlier-run" && len(ids) > 0 {
		ew := *w
		ew.IDs = ids
		for ti := range w.Source.Tables {
			t := &w.Source.Tables[ti]
			if !t.Spatial {
				continue
			}
			for ri, row := range t.Rows[:len(t.Rows)/2] {
				if row.Geom == nil || (row.Geom.T != gpkgh.TPolygon && row.Geom.T != gpkgh.TMultiPolygon) {
					continue
				}
				parts := row.Geom.M
				if row.Geom.T == gpkgh.TPolygon {
					parts = [][][][2]float64{row.Geom.L}
				}
				if _, panicked := snapParts(&ew, parts); panicked != "" {
					m.skip = fmt.Sprintf("snap.SnapPolygon itself panics on source row %d of %s with the ids of the earlier run %v: %s", ri, t.Name, ids, panicked)
					return m
				}
			}
		}
	}
	return m
}

// earlierIDs: the ids the earlier run of the tool is given (existing == "earlier-run").
func earlierIDs(w *twork) []int {
	var ids []int
	for _, id := range w.IDs {
		if w.ExistingMask>>(uint(id)%64)&1 == 1 {
			ids = append(ids, id)
		}
	}
	return ids
}

// ------------------------------------------------------------------------------------
// one run

type runResult struct {
	sim       simrt.Result
	violation *simh.Violation
	probes    simh.Counter
	nontriv   bool
	args      []string
	files     int
	skipped   string
}

func fileHash(p string) string {
	b, err := os.ReadFile(p)
	if err != nil {
		return "missing"
	}
	return strconv.FormatUint(simrt.HashString(string(b)), 16) + ":" + strconv.Itoa(len(b))
}

func listFiles(dir string) []string {
	var out []string
	filepath.Walk(dir, func(p string, info os.FileInfo, err error) error {
		if err == nil && !info.IsDir() {
			rel, _ := filepath.Rel(dir, p)
			out = append(out, rel)
		}
		return nil
	})
	sort.Strings(out)
	return out
}

// previousContent is what an earlier run with other data could have left behind.
func previousContent(seed uint64) *gpkgh.Source {
	r := simrt.NewRNG(seed, "toolsim-previous")
	srs := gpkgh.SRS{Name: "old", ID: 31370, Org: "EPSG", OrgID: 31370, Definition: "old", Description: "old"}
	src := &gpkgh.Source{SRS: []gpkgh.SRS{srs}}
	for i := 0; i < 1+r.Intn(2); i++ {
		t := gpkgh.Table{Name: fmt.Sprintf("old_table_%d", i), Spatial: true, SRSID: srs.ID, GeomCol: "geom", GeomType: gpkgh.TPoint,
			Columns: []gpkgh.Column{{Name: "fid", Type: "INTEGER", PK: true}, {Name: "geom", Type: gpkgh.TPoint}, {Name: "note", Type: "TEXT"}}}
		for k := 0; k < 3+r.Intn(20); k++ {
			t.Rows = append(t.Rows, gpkgh.Row{Vals: []gpkgh.Val{gpkgh.IntVal(int64(k + 1)), gpkgh.TextVal("left over")}, Geom: &gpkgh.G{T: gpkgh.TPoint, P: [][2]float64{{float64(k), 1}}}})
		}
		src.Tables = append(src.Tables, t)
	}
	return src
}

type prepared struct {
	// preTables: user tables of each pre-existing target file (by relative path), to tell a
	// survivor from a table the tool chose to add
	preTables        map[string]map[string]bool
	earlierArgs      []string // earlier-run: command line of the earlier run (run by runOne)
	dir, src, target string
	args             []string
	decoys           map[string]string // relative path -> content hash
	expectedFiles    map[string]bool
}

func prepare(w *twork, seed uint64, dir string) prepared {
	os.RemoveAll(dir)
	p := prepared{dir: dir, decoys: map[string]string{}, expectedFiles: map[string]bool{}, preTables: map[string]map[string]bool{}}
	p.target = filepath.Join(dir, "out", filepath.FromSlash(w.TargetRel))
	if err := os.MkdirAll(filepath.Dir(p.target), 0o755); err != nil {
		simh.Fatalf("%v", err)
	}
	p.src = filepath.Join(dir, "source.gpkg")
	if err := gpkgh.WriteSource(p.src, &w.Source); err != nil {
		simh.Fatalf("writing the source GeoPackage: %v", err)
	}
	for k, id := range w.IDs {
		tp := targetName(p.target, id)
		rel, _ := filepath.Rel(dir, tp)
		p.expectedFiles[rel] = true
		if w.ExistingMask>>(uint(id)%64)&1 == 0 {
			continue
		}
		switch w.Existing {
		case "earlier-run":
			// written by runOne through the tool itself (all ids at once), see earlierArgs
		case "same-tables":
			// what an earlier run on (an older state of) the same source left: the same table
			// names and schemas with some rows; if it survived, rows would pile up
			old := gpkgh.Source{SRS: w.Source.SRS}
			for _, tb := range w.Source.Tables {
				if !tb.Spatial {
					continue
				}
				c := tb
				if len(c.Rows) > 2 {
					c.Rows = c.Rows[:len(c.Rows)/2]
				}
				old.Tables = append(old.Tables, c)
			}
			if err := gpkgh.WriteSource(tp, &old); err != nil {
				simh.Fatalf("pre-existing target: %v", err)
			}
		case "previous", "truncated":
			if err := gpkgh.WriteSource(tp, previousContent(seed+uint64(k))); err != nil {
				simh.Fatalf("pre-existing target: %v", err)
			}
			if w.Existing == "truncated" {
				b, _ := os.ReadFile(tp)
				cut := 100 + int(simrt.HashString(tp)%uint64(len(b)-100))
				os.WriteFile(tp, b[:cut], 0o644)
			}
		case "symlink":
			// the target path is a link to an older GeoPackage somewhere else: removing the
			// target means removing the link; the file it points to is not the tool's business
			linked := filepath.Join(dir, "linked_old_"+strconv.Itoa(id)+".gpkg")
			if err := gpkgh.WriteSource(linked, previousContent(seed+uint64(k))); err != nil {
				simh.Fatalf("pre-existing target: %v", err)
			}
			if err := os.Symlink(linked, tp); err != nil {
				simh.Fatalf("pre-existing target: %v", err)
			}
			lrel, _ := filepath.Rel(dir, linked)
			p.decoys[lrel] = fileHash(linked)
		case "empty-dir":
			os.Mkdir(tp, 0o755)
		case "empty":
			os.WriteFile(tp, nil, 0o644)
		case "garbage":
			r := simrt.NewRNG(seed+uint64(k), "garbage")
			b := make([]byte, 50+r.Intn(5000))
			for i := range b {
				b[i] = byte(r.Uint64())
			}
			os.WriteFile(tp, b, 0o644)
		}
	}
	if w.Decoys {
		// files the tool must leave alone: the un-suffixed target path, and a suffixed one
		// for an id that is not requested
		other := 99
		for _, d := range []string{p.target, targetName(p.target, other)} {
			rel, _ := filepath.Rel(dir, d)
			if p.expectedFiles[rel] {
				continue
			}
			os.WriteFile(d, []byte("decoy "+rel), 0o644)
			p.decoys[rel] = fileHash(d)
		}
	}
	p.expectedFiles["source.gpkg"] = true
	p.args = buildArgs(w, p.src, p.target)
	if w.Existing == "earlier-run" {
		// an older state of the source: the last spatial table is missing (if there are two or
		// more), every table has only half of its rows
		old := gpkgh.Source{SRS: w.Source.SRS}
		spatial := 0
		for _, tb := range w.Source.Tables {
			if tb.Spatial {
				spatial++
			}
		}
		seen := 0
		for _, tb := range w.Source.Tables {
			if tb.Spatial {
				seen++
				if spatial >= 2 && seen == spatial {
					continue
				}
			}
			c := tb
			c.Rows = c.Rows[:len(c.Rows)/2]
			old.Tables = append(old.Tables, c)
		}
		oldSrc := filepath.Join(dir, "source_old.gpkg")
		if err := gpkgh.WriteSource(oldSrc, &old); err != nil {
			simh.Fatalf("older source: %v", err)
		}
		p.expectedFiles["source_old.gpkg"] = true
		ew := *w
		ew.Overwrite = false
		if ids := earlierIDs(w); len(ids) > 0 {
			ew.IDs = ids
			p.earlierArgs = buildArgs(&ew, oldSrc, p.target)
		}
	}
	return p
}

// notePreTables reads which user tables the pre-existing target files hold.
func notePreTables(w *twork, p *prepared) {
	for _, id := range w.IDs {
		tp := targetName(p.target, id)
		rel, _ := filepath.Rel(p.dir, tp)
		if fi, err := os.Lstat(tp); err == nil && fi.Mode()&os.ModeSymlink != 0 {
			continue // (a link: the file behind it is watched as a file the tool must leave alone)
		}
		if d, err := gpkgh.ReadFile(tp); err == nil {
			m := map[string]bool{}
			for _, t := range d.UserTables {
				m[t] = true
			}
			p.preTables[rel] = m
			// a marker: whatever else the new file holds, this table can only be there if
			// content of the old file survived
			if err := gpkgh.AddMarker(tp); err != nil {
				simh.Fatalf("toolsim: marking the pre-existing target %s: %v", tp, err)
			}
		}
	}
}

// verify compares what the tool left on disk with the model.
func verify(w *twork, p prepared, m modelResult) (*simh.Violation, int) {
	files := 0
	have := map[string]bool{}
	for _, f := range listFiles(p.dir) {
		if strings.HasSuffix(f, "-journal") || strings.HasSuffix(f, "-wal") || strings.HasSuffix(f, "-shm") {
			continue
		}
		have[f] = true
	}
	for rel, h := range p.decoys {
		if fileHash(filepath.Join(p.dir, rel)) != h {
			return &simh.Violation{Class: "files/unrelated-file-touched", Message: fmt.Sprintf("%s was changed or removed by the tool (command line %v)", rel, p.args)}, files
		}
		delete(have, rel)
	}
	var missing, extra []string
	for f := range p.expectedFiles {
		if !have[f] {
			missing = append(missing, f)
		}
	}
	// a new file counts as a wrongly named target only if it sits next to the targets and is
	// named after them (the un-suffixed path, or the stem followed by an underscore); other
	// files a tool may create (a log, a lock) are not this property's business
	tdir, tfile := filepath.Split(p.target)
	stem := strings.TrimSuffix(tfile, filepath.Ext(tfile))
	relDir, _ := filepath.Rel(p.dir, tdir)
	for f := range have {
		if p.expectedFiles[f] {
			continue
		}
		fd, fb := filepath.Split(f)
		if filepath.Clean(fd) == filepath.Clean(relDir) && (fb == tfile || strings.HasPrefix(fb, stem+"_") || (strings.HasPrefix(fb, stem) && filepath.Ext(fb) == filepath.Ext(tfile))) {
			extra = append(extra, f)
		}
	}
	sort.Strings(missing)
	sort.Strings(extra)
	if len(missing) > 0 || len(extra) > 0 {
		return &simh.Violation{Class: "files/names", Message: fmt.Sprintf("target path %q ids %v: missing files %v, unexpected files %v", w.TargetRel, w.IDs, missing, extra)}, files
	}
	srsByID := map[int]*gpkgh.SRS{}
	for i := range w.Source.SRS {
		srsByID[w.Source.SRS[i].ID] = &w.Source.SRS[i]
	}
	ids := append([]int(nil), w.IDs...)
	sort.Ints(ids)
	for _, id := range ids {
		tp := targetName(p.target, id)
		d, err := gpkgh.ReadFile(tp)
		if err != nil {
			return &simh.Violation{Class: "file/unreadable", Message: fmt.Sprintf("target for tile matrix %d: %v", id, err)}, files
		}
		files++
		want := map[string]bool{}
		for _, e := range m.tables[id] {
			want[e.Name] = true
		}
		have := map[string]bool{}
		for _, t := range d.UserTables {
			have[t] = true
		}
		rel, _ := filepath.Rel(p.dir, tp)
		for t := range want {
			if !have[t] {
				return &simh.Violation{Class: "file/tables", Message: fmt.Sprintf("target for tile matrix %d lacks table %q (holds %v; pre-existing content: %s, overwrite: %v)", id, t, d.UserTables, w.Existing, w.Overwrite)}, files
			}
		}
		for _, t := range d.UserTables {
			if want[t] {
				continue
			}
			if t == gpkgh.MarkerTable {
				var others []string
				for o := range p.preTables[rel] {
					if have[o] && !want[o] {
						others = append(others, o)
					}
				}
				sort.Strings(others)
				return &simh.Violation{Class: "file/tables", Message: fmt.Sprintf("target for tile matrix %d still holds content of the pre-existing file: the marker table written into it before the run, and of its tables %v (pre-existing content: %s, overwrite: %v)", id, others, w.Existing, w.Overwrite)}, files
			}
			if _, isFeatureTable := d.Tables[t]; isFeatureTable {
				return &simh.Violation{Class: "file/tables", Message: fmt.Sprintf("target for tile matrix %d registers a feature table %q that the source does not have", id, t)}, files
			}
			// any other extra table (bookkeeping of the tool, a copied attributes table) is
			// not forbidden by the property
		}
		for _, e := range m.tables[id] {
			if mis := gpkgh.CheckTable(d, e, srsByID[e.SRSID]); mis != nil {
				return &simh.Violation{Class: "file/" + mis.Class, Message: fmt.Sprintf("target for tile matrix %d (ids %v, tms %s, page size %d, keep=%v ignore-outside=%v reverse=%v): %s", id, w.IDs, w.TMS, w.PageSize, w.Keep, w.IgnoreOut, w.Reverse, mis.Msg)}, files
			}
		}
	}
	return nil, files
}

var tapeSink func(uint32)
var onFatal func(v *simh.Violation)

func runOne(t *testing.T, w *twork, fp simrt.FaultPlan, mp simrt.MapPolicy, mapSeed, seed uint64, tape []uint32, replay, trace bool, dir string, mode string, binary string) (rr runResult) {
	rr.probes = simh.Counter{}
	if w.ExpectFailure && mode == "binary" && !hasOutsidePolygon(w) {
		// (a shrunk candidate that lost its outside polygon: nothing to expect any more)
		w.ExpectFailure = false
	}
	if w.ExpectFailure && mode == "binary" {
		p := prepare(w, seed, dir)
		defer os.RemoveAll(dir)
		rr.args = p.args
		cmd := exec.Command(binary, p.args[1:]...)
		cmd.Dir = dir
		outb, err := cmd.CombinedOutput()
		rr.probes.Inc("binary:outside-grid-without-ignore-flag")
		if err == nil {
			rr.violation = &simh.Violation{Class: "binary/no-failure-on-outside-grid", Message: "a polygon lies partly outside the grid and the ignore flag is off, yet the tool exited 0\n" + lastLines(string(outb), 8)}
		}
		rr.nontriv = true
		return rr
	}
	p := prepare(w, seed, dir)
	defer os.RemoveAll(dir)
	rr.args = p.args
	srcDump, err := gpkgh.ReadFile(p.src)
	if err != nil {
		simh.Fatalf("toolsim: reading the source back: %v", err)
	}
	m := buildModel(w, srcDump)
	if m.skip != "" {
		rr.skipped = m.skip
		rr.probes.Inc("skipped:library-panics-on-generated-polygon")
		rr.probes.Inc("skipped-reason:" + panicKind(m.skip))
		rr.probes.Inc("skipped-tms:" + w.TMS)
		return rr
	}
	if p.earlierArgs != nil {
		// the earlier run: the tool itself, free-running, on the older state of the source
		if mode == "binary" {
			cmd := exec.Command(binary, p.earlierArgs[1:]...)
			cmd.Dir = dir
			if outb, err := cmd.CombinedOutput(); err != nil {
				rr.violation = &simh.Violation{Class: "binary/exit", Message: fmt.Sprintf("the earlier run of the texel binary failed: %v\n%s", err, lastLines(string(outb), 12))}
				return rr
			}
		} else {
			os.Args = p.earlierArgs
			main()
		}
		rr.probes.Inc("earlier-run-of-the-tool-left-the-pre-existing-targets")
	}
	notePreTables(w, &p)
	switch mode {
	case "sim":
		simrt.SetMapOrder(mp, mapSeed)
		rows := 0
		for _, tb := range w.Source.Tables {
			rows += len(tb.Rows)
		}
		opt := simrt.Options{Seed: seed, Faults: fp, Tape: tape, Replay: replay, Trace: trace, TapeSink: tapeSink,
			MaxSteps: 20000 + 600*(rows+len(w.Source.Tables)+2)*(len(w.IDs)+2)}
		var leak string
		rr.sim, leak = simh.RunBubble(t, opt, func() {
			os.Args = p.args
			main()
		}, func(stacks string) {
			// goroutines still alive when main() has returned are no concern of this property
			// (the process would simply exit). If one of them sits on a timer, though, the
			// bubble can never be left: verify now, report, and end this engine process.
			if strings.Contains(stacks, "[sleep") || strings.Contains(stacks, "time.") {
				v, _ := verify(w, p, m)
				if onFatal != nil {
					onFatal(v)
				}
			}
		})
		simrt.SetMapOrder(simrt.MapNative, 0)
		switch {
		case rr.sim.Outcome == "deadlock":
			rr.violation = &simh.Violation{Class: "tool/deadlock", Message: rr.sim.Detail + "; " + strings.Join(rr.sim.Blocked, "; ")}
		case rr.sim.Outcome == "livelock":
			rr.violation = &simh.Violation{Class: "tool/livelock", Message: rr.sim.Detail}
		case rr.sim.Outcome != "ok":
			simh.Fatalf("toolsim: simulator outcome %q %s", rr.sim.Outcome, rr.sim.Detail)
		case leak != "":
			rr.probes.Inc("goroutines-alive-after-main-returned(not-a-C13-matter)")
		}
	case "free":
		os.Args = p.args
		main()
	case "binary":
		cmd := exec.Command(binary, p.args[1:]...)
		cmd.Dir = dir
		outb, err := cmd.CombinedOutput()
		if err != nil {
			rr.violation = &simh.Violation{Class: "binary/exit", Message: fmt.Sprintf("the texel binary failed on a valid configuration: %v\n%s", err, lastLines(string(outb), 12))}
		}
	}
	if rr.violation == nil {
		rr.violation, rr.files = verify(w, p, m)
	}
	// probes
	pr := rr.probes
	pr.Merge(m.probes)
	pr.Inc("existing=" + w.Existing)
	if w.Existing != "none" {
		some, all := false, true
		for _, id := range w.IDs {
			if w.ExistingMask>>(uint(id)%64)&1 == 1 {
				some = true
			} else {
				all = false
			}
		}
		if some && !all {
			pr.Inc("pre-existing-target-for-some-ids-only")
		}
	}
	pr.Inc("tms=" + w.TMS)
	pr.Inc("ids=" + strconv.Itoa(len(w.IDs)))
	if !sort.IntsAreSorted(w.IDs) {
		pr.Inc("ids-given-unsorted")
	}
	nt := 0
	for _, tb := range w.Source.Tables {
		if !tb.Spatial {
			pr.Inc("non-spatial-table-present")
			continue
		}
		nt++
		if len(tb.Rows) == 0 {
			pr.Inc("table-with-zero-rows")
		}
		if len(tb.Rows) > 0 && len(tb.Rows)%w.PageSize == 0 {
			pr.Inc("row-count-multiple-of-page-size")
		}
	}
	if nt >= 2 {
		pr.Inc("two-or-more-tables(table-switch)")
	}
	if !strings.Contains(filepath.Base(w.TargetRel), ".") {
		pr.Inc("target-path-without-extension")
	}
	if strings.Contains(filepath.Dir(w.TargetRel), ".") {
		pr.Inc("target-path-with-dotted-directory")
	}
	rr.nontriv = nt > 0
	return rr
}

func panicKind(s string) string {
	if i := strings.Index(s, ": "); i >= 0 {
		s = s[i+2:]
	}
	var b strings.Builder
	for _, r := range s {
		if (r >= 'a' && r <= 'z') || (r >= 'A' && r <= 'Z') || r == ' ' {
			b.WriteRune(r)
		}
		if b.Len() > 50 {
			break
		}
	}
	return strings.TrimSpace(b.String())
}

func lastLines(s string, n int) string {
	ls := strings.Split(strings.TrimSpace(s), "\n")
	if len(ls) > n {
		ls = ls[len(ls)-n:]
	}
	return strings.Join(ls, "\n")
}

// ------------------------------------------------------------------------------------

func TestVerifToolsim(t *testing.T) {
	job, err := simh.LoadJob()
	if err != nil {
		t.Fatal(err)
	}
	if job == nil {
		t.Skip("no VERIF_JOB")
	}
	out, err := simh.OpenOut(job.Out)
	if err != nil {
		t.Fatal(err)
	}
	defer out.Close()
	runLog := simh.NewRunLog(job.Out + ".log")
	log.SetOutput(runLog)
	if job.Engine == "toolsim" {
		// all simulated runs of this process in ONE bubble (see simh.InBubble)
		simh.InBubble(t, func() { toolsimMain(t, job, out, runLog) })
		return
	}
	toolsimMain(t, job, out, runLog)
}

func toolsimMain(t *testing.T, job *simh.Job, out *simh.Out, runLog *simh.RunLog) {
	mode := map[string]string{"explore": "sim", "selftest": "sim", "race": "free", "binary": "binary"}[job.Mode]
	switch job.Mode {
	case "explore", "selftest", "race", "binary":
		sum := simh.NewSummary("toolsim", job.Mode, job.SeedLo)
		digests := simh.NewDigestSet(2000000)
		dl := simh.NewDeadline(job.BudgetS)
		t0 := simh.RealNow()
		for seed := job.SeedLo; seed < job.SeedHi; seed++ {
			if dl.Expired() {
				break
			}
			out.Line(map[string]interface{}{"t": "start", "seed": seed})
			runLog.Reset()
			w, fp, mp, mapSeed := genWork(seed)
			if mode == "binary" && seed%3 == 0 {
				forceOutsideGrid(&w, seed)
			}
			engine := "toolsim"
			if mode != "sim" {
				engine = "toolsim-" + mode
			}
			mk := func(rr runResult) replayFile {
				return replayFile{Property: job.Property, Engine: engine, Seed: seed, Workload: w, Faults: fp, MapPolicy: mp.String(), MapSeed: mapSeed,
					Tape: rr.sim.Tape, Violation: rr.violation, ShrinkArrays: shrinkArrays, ShrinkInts: []string{"workload.page_size"}, Trace: rr.sim.Trace, Args: rr.args}
			}
			tapeSink = simh.StreamReplay(job, func() interface{} { return mk(runResult{}) })
			onFatal = func(v *simh.Violation) {
				if v != nil && !job.IsKnown(v.Class) {
					out.Line(map[string]interface{}{"t": "violation", "seed": seed, "replay": mk(runResult{violation: v})})
				} else {
					// nothing wrong with this run, but the process cannot go on: report what was covered
					sum.Runs++
					sum.SeedNext = seed + 1
					sum.Notes = append(sum.Notes, "engine process ended early: a goroutine of the tool stays alive on a timer after main() returned")
					simh.WriteDigests(job.Out+".digests", digests.Slice())
					out.Line(sum)
				}
				os.Exit(0)
			}
			wantSample := len(sum.Samples) < job.Samples && len(w.Source.Tables) <= 2 && rowsOf(&w) >= 2 && rowsOf(&w) <= 6
			rr := runOne(t, &w, fp, mp, mapSeed, seed, nil, false, job.Mode == "selftest", filepath.Join(job.Scratch, "run"), mode, job.Extra["binary"])
			if rr.skipped != "" && len(sum.Notes) < 3 {
				sum.Notes = append(sum.Notes, fmt.Sprintf("seed %d skipped: %s", seed, rr.skipped))
			}
			sum.Runs++
			sum.SeedNext = seed + 1
			sum.Steps += int64(rr.sim.Steps)
			sum.SimTimeMs += rr.sim.SimTime.Milliseconds()
			for k, v := range rr.sim.Fired {
				sum.Fired.Add(k, int64(v))
			}
			sum.Probes.Merge(rr.probes)
			sum.Oracles.Add("target-files-compared-with-model", int64(rr.files))
			wj, _ := json.Marshal(w)
			dg := rr.sim.Digest ^ simrt.HashString(string(wj))
			if rr.nontriv {
				sum.NonTrivial++
				digests.Add(dg)
			}
			if job.Mode == "selftest" {
				out.Line(map[string]interface{}{"t": "digest", "seed": seed, "digest": strconv.FormatUint(dg, 16), "steps": rr.sim.Steps,
					"trace_hash": strconv.FormatUint(simrt.HashString(strings.Join(rr.sim.Trace, "\n")), 16)})
			}
			if rr.violation != nil {
				if job.IsKnown(rr.violation.Class) {
					sum.Oracles.Inc("known:" + rr.violation.Class)
					continue
				}
				out.Line(map[string]interface{}{"t": "violation", "seed": seed, "replay": mk(rr)})
				break
			}
			if wantSample {
				b, _ := json.Marshal(map[string]interface{}{"seed": seed, "command_line": rr.args[1:], "workload": w, "steps": rr.sim.Steps, "target_files_checked": rr.files})
				sum.Samples = append(sum.Samples, b)
			}
		}
		simh.WriteDigests(job.Out+".digests", digests.Slice())
		sum.DigestsTotal = int64(digests.Len())
		sum.WallS = simh.RealNow().Sub(t0).Seconds()
		out.Line(sum)
	case "candidates":
		for i, raw := range job.Candidates {
			var rf replayFile
			if err := json.Unmarshal(raw, &rf); err != nil {
				simh.Fatalf("candidate %d: %v", i, err)
			}
			out.Line(map[string]interface{}{"t": "start", "cand": i})
			runLog.Reset()
			mp, _ := simrt.ParseMapPolicy(rf.MapPolicy)
			class, msg := "", ""
			var trace []string
			ci := i
			onFatal = func(v *simh.Violation) {
				if v == nil {
					v = &simh.Violation{}
				}
				out.Line(map[string]interface{}{"t": "cand", "cand": ci, "class": v.Class, "message": v.Message})
				os.Exit(0)
			}
			spatial := 0
			for _, tb := range rf.Workload.Source.Tables {
				if tb.Spatial {
					spatial++
				}
			}
			if len(rf.Workload.IDs) > 0 && rf.Workload.PageSize >= 1 && spatial > 0 {
				m := map[string]string{"toolsim": "sim", "toolsim-free": "free", "toolsim-binary": "binary"}[rf.Engine]
				if m == "" {
					m = "sim"
				}
				for k := rf.Prelude; k >= 1 && m != "binary"; k-- {
					if rf.Seed >= uint64(k) {
						pw, pfp, pmp, pms := genWork(rf.Seed - uint64(k))
						runOne(t, &pw, pfp, pmp, pms, rf.Seed-uint64(k), nil, false, false, filepath.Join(job.Scratch, "prelude"), m, "")
					}
				}
				rr := runOne(t, &rf.Workload, rf.Faults, mp, rf.MapSeed, rf.Seed, rf.Tape, true, true, filepath.Join(job.Scratch, "cand"), m, job.Extra["binary"])
				if rr.violation != nil {
					class, msg = rr.violation.Class, rr.violation.Message
				}
				trace = rr.sim.Trace
			}
			out.Line(map[string]interface{}{"t": "cand", "cand": i, "class": class, "message": msg, "trace": trace})
			if job.WantClass != "" && class == job.WantClass {
				break
			}
		}
		out.Line(map[string]interface{}{"t": "done"})
	default:
		simh.Fatalf("unknown mode %q", job.Mode)
	}
}

func lenRows(t *gpkgh.TableDump) int {
	if t == nil {
		return -1
	}
	return len(t.Rows)
}

func rowsOf(w *twork) int {
	n := 0
	for _, t := range w.Source.Tables {
		n += len(t.Rows)
	}
	return n
}

func contains(l []string, s string) bool {
	for _, x := range l {
		if x == s {
			return true
		}
	}
	return false
}
