//go:build verif && go1.25

// snapsim: snap.SnapPolygon behind the map-iteration-order seam. One seed = one
// generated (polygon, tile matrix set, id list, config) evaluated under several exact
// iteration orders at every map site, with the id list permuted, with input rings
// reversed and with the reverse-winding flag flipped. Decides C07.
//
// The same file is compiled twice: into the instrumented copy (seam active) and into
// the un-instrumented tree ("plain": Go's own randomised map order; used for the
// process-repetition oracle, which also validates the rewriter).
package snap_test

import (
	"encoding/json"
	"fmt"
	"io"
	"log"
	"math"
	"sort"
	"strconv"
	"strings"
	"testing"
	"time"

	"github.com/go-spatial/geom"
	"github.com/pdok/texel/internal/simh"
	"github.com/pdok/texel/internal/simrt"
	"github.com/pdok/texel/snap"
	"github.com/pdok/texel/tms20"
)

// ------------------------------------------------------------------------------------
// workload

type snapInput struct {
	TMS       string         `json:"tms"`   // "synthetic:<deepest>" or an embedded id
	IDs       []int          `json:"ids"`   // tile matrix ids as requested (order matters to the caller only)
	Lattice   [][][2]int64   `json:"rings"` // ring 0 = shell; integer lattice coordinates
	OX        float64        `json:"origin_x"`
	OY        float64        `json:"origin_y"`
	Unit      float64        `json:"lattice_unit"` // 1/8 internal pixel of the deepest requested level
	Rings     [][][2]float64 `json:"-"`            // = origin + lattice * unit
	Valid     bool           `json:"valid"`        // generated valid by construction and re-validated exactly
	IgnoreOut bool           `json:"ignore_outside_grid,omitempty"`
	Keep      bool           `json:"keep_points_and_lines"`
	Reverse   bool           `json:"reverse_winding_order"`
	Shape     string         `json:"shape"`
	RevRings  []int          `json:"reverse_rings,omitempty"` // oracle 3: which input rings to hand over reversed
	// Twins: after vertex V of ring R a second vertex follows on the edge to the next vertex,
	// Eps away (digitising noise: two vertices closer together than any tolerance)
	Twins []twin `json:"twins,omitempty"`
}

type twin struct {
	R   int     `json:"ring"`
	V   int     `json:"vertex"`
	Eps float64 `json:"eps"`
}

type fakeCRS struct{}

func (fakeCRS) Description() string { return "" }
func (fakeCRS) Authority() string   { return "" }
func (fakeCRS) Version() string     { return "" }
func (fakeCRS) Code() string        { return "" }

var tmsCache = map[string]tms20.TileMatrixSet{}

func loadTMS(name string) tms20.TileMatrixSet {
	if t, ok := tmsCache[name]; ok {
		return t
	}
	var t tms20.TileMatrixSet
	if strings.HasPrefix(name, "synthetic:") {
		deepest, _ := strconv.Atoi(strings.TrimPrefix(name, "synthetic:"))
		zero := tms20.TwoDPoint([2]float64{0, 0})
		t = tms20.TileMatrixSet{CRS: fakeCRS{}, OrderedAxes: []string{"X", "Y"}, TileMatrices: map[tms20.TMID]tms20.TileMatrix{}}
		for id := 0; id <= deepest; id++ {
			cs := 16.0 * float64(uint(1)<<uint(deepest-id))
			t.TileMatrices[id] = tms20.TileMatrix{ID: strconv.Itoa(id), ScaleDenominator: cs / tms20.StandardizedRenderingPixelSize,
				CellSize: cs, CornerOfOrigin: tms20.BottomLeft, PointOfOrigin: &zero, TileWidth: 1, TileHeight: 1, MatrixWidth: 1, MatrixHeight: 1}
		}
	} else {
		var err error
		t, err = tms20.LoadEmbeddedTileMatrixSet(name)
		if err != nil {
			simh.Fatalf("load tms %s: %v", name, err)
		}
	}
	tmsCache[name] = t
	return t
}

// grid describes the lattice polygons are generated on: origin, extent and the size of
// one internal pixel at the deepest requested id.
type grid struct {
	minX, minY, span float64
	pix              map[int]float64 // internal pixel size per id
}

func gridOf(name string, t tms20.TileMatrixSet, ids []int) grid {
	bl, tr, err := t.MatrixBoundingBox(0)
	if err != nil {
		simh.Fatalf("bbox: %v", err)
	}
	g := grid{minX: bl[0], minY: bl[1], span: tr[0] - bl[0], pix: map[int]float64{}}
	root := t.TileMatrices[0]
	levelDiff := uint(math.Log2(float64(root.TileWidth))) + 4
	for _, id := range ids {
		g.pix[id] = g.span / float64(uint64(1)<<(uint(id)+levelDiff))
	}
	return g
}

var embedded = []string{"NetherlandsRDNewQuad", "WebMercatorQuad", "EuropeanETRS89_LAEAQuad"}

func genInput(seed uint64) snapInput {
	r := simrt.NewRNG(seed, "snapsim-workload")
	var in snapInput
	maxID := 0
	if r.Chance(0.75) {
		d := 1 + r.Intn(6)
		in.TMS = "synthetic:" + strconv.Itoa(d)
		maxID = d
	} else {
		in.TMS = embedded[r.Intn(len(embedded))]
		maxID = 2 + r.Intn(9)
		if r.Chance(0.35) {
			// deep tile matrices of a real-world grid: pixels of centimetres at coordinates
			// of millions, where naive orientation / area arithmetic drowns in rounding noise
			maxID = 14 + r.Intn(9)
		}
		if top := len(loadTMS(in.TMS).TileMatrices) - 1; maxID > top {
			maxID = top
		}
	}
	// id list: 2..5 ids (10 %: a single id), any order
	n := 2 + r.Intn(4)
	if r.Chance(0.1) {
		n = 1
	}
	if n > maxID+1 {
		n = maxID + 1
	}
	perm := r.Perm(maxID + 1)
	in.IDs = append([]int(nil), perm[:n]...)
	in.Keep = r.Chance(0.5)
	in.Reverse = r.Chance(0.3)
	t := loadTMS(in.TMS)
	g := gridOf(in.TMS, t, in.IDs)
	deep, coarse := in.IDs[0], in.IDs[0]
	for _, id := range in.IDs {
		if id > deep {
			deep = id
		}
		if id < coarse {
			coarse = id
		}
	}
	unit := g.pix[deep] / 8 // lattice unit: 1/8 pixel of the deepest requested level (exact in float64 for dyadic grids)
	// the shape lives in lattice coordinates (integers), placed inside the extent
	cells := int64(g.span / unit)
	// characteristic size: around one pixel of one of the requested levels
	ref := in.IDs[r.Intn(len(in.IDs))]
	pixL := int64(g.pix[ref] / unit) // pixel of the reference level in lattice units
	size := pixL/2 + int64(r.Intn(int(minI64(pixL*12, cells/4))+1))
	if size < 4 {
		size = 4
	}
	if size > cells/4 {
		size = cells / 4
	}
	cx := size + 2 + int64(r.Uint64()%uint64(cells-2*size-4))
	cy := size + 2 + int64(r.Uint64()%uint64(cells-2*size-4))
	var rings [][][2]int64
	x := r.Intn(26)
	if x >= 24 && !r.Chance(0.2) {
		x = r.Intn(9) // (the two expensive shapes: well under one input in a hundred each)
	}
	switch {
	case x == 24:
		// two large blobs joined by a neck narrower than a pixel, each with a grid of small
		// holes: an outer ring that splits in two and dozens of inner rings to hand out
		in.Shape = "dumbbell-many-holes"
		blob := pixL * int64(6+r.Intn(7))
		neckW := maxI64(1, pixL/8+int64(r.Intn(int(pixL/2)+1)))
		neckL := maxI64(2, pixL+int64(r.Intn(int(3*pixL)+1)))
		x0, y0 := cx-blob-neckL/2, cy-blob/2
		if x0 < 2 {
			x0 = 2
		}
		if y0 < 2 {
			y0 = 2
		}
		mid := y0 + blob/2
		rings = append(rings, dedupe([][2]int64{
			{x0, y0}, {x0 + blob, y0}, {x0 + blob, mid - neckW/2},
			{x0 + blob + neckL, mid - neckW/2}, {x0 + blob + neckL, y0}, {x0 + 2*blob + neckL, y0},
			{x0 + 2*blob + neckL, y0 + blob}, {x0 + blob + neckL, y0 + blob}, {x0 + blob + neckL, mid - neckW/2 + neckW},
			{x0 + blob, mid - neckW/2 + neckW}, {x0 + blob, y0 + blob}, {x0, y0 + blob},
		}))
		hs := maxI64(2, pixL*int64(8+r.Intn(8))/10)
		step := hs + maxI64(2, pixL)
		for _, bx := range []int64{x0, x0 + blob + neckL} {
			for hx := bx + step/2; hx+hs < bx+blob-1; hx += step {
				for hy := y0 + step/2; hy+hs < y0+blob-1; hy += step {
					if len(rings) > 70 || r.Chance(0.15) {
						continue
					}
					rings = append(rings, [][2]int64{{hx, hy}, {hx, hy + hs}, {hx + hs, hy + hs}, {hx + hs, hy}}) // clockwise
				}
			}
		}
		in.Valid = true
	case x == 25:
		// a ring of many hundreds of vertices (work done in blocks, buffers that grow)
		in.Shape = "star-of-many-vertices"
		nv := 300 + r.Intn(900)
		big := int64(nv) * 4 / 6 // vertices about half a pixel of the deepest level apart
		if r.Chance(0.5) {
			big = int64(nv) * 72 / 6 // ... or about nine pixels apart
		}
		if big > cells/4 {
			big = cells / 4
		}
		if cx < big+2 {
			cx = big + 2
		}
		if cy < big+2 {
			cy = big + 2
		}
		if cx > cells-big-2 {
			cx = cells - big - 2
		}
		if cy > cells-big-2 {
			cy = cells - big - 2
		}
		rings = append(rings, star(r, cx, cy, big*9/10+1, big, nv))
		in.Valid = true
	case x >= 20 && x < 22:
		// several thin V-shaped holes whose tips meet in one pixel: many rings pass through the
		// same pixel more than once
		in.Shape = "chevron-holes"
		rmin := size/2 + 1
		rings = append(rings, star(r, cx, cy, rmin, size, 6+r.Intn(20)))
		k := 3 + r.Intn(4)
		e := float64(1 + r.Intn(int(pixL/4)+2))
		th := float64(1 + r.Intn(int(pixL/6)+1))
		arm := float64(rmin)*0.8 - e - th
		if arm < 3 {
			arm = 3
		}
		for h := 0; h < k; h++ {
			theta := (float64(h) + 0.2*r.Float()) * 2 * math.Pi / float64(k)
			alpha := math.Pi / float64(k) * (0.35 + 0.3*r.Float())
			pt := func(d, ang, shift float64) [2]int64 {
				return [2]int64{cx + int64(math.Round((e+shift)*math.Cos(theta)+d*math.Cos(ang))), cy + int64(math.Round((e+shift)*math.Sin(theta)+d*math.Sin(ang)))}
			}
			la, lb := arm*(0.5+0.5*r.Float()), arm*(0.5+0.5*r.Float())
			hole := [][2]int64{pt(la, theta-alpha, 0), pt(0, 0, 0), pt(lb, theta+alpha, 0), pt(lb, theta+alpha, th), pt(0, 0, th), pt(la, theta-alpha, th)}
			if area2(hole) > 0 {
				rev(hole) // holes clockwise
			}
			rings = append(rings, hole)
		}
		in.Valid = true
	case x >= 22 && x < 24:
		// a moat: a ring-shaped hole with a narrow bridge to the island inside it, which has
		// holes of its own; when the bridge closes on the grid the island becomes a polygon
		// nested in the hole of the outer one
		in.Shape = "moat"
		rmin := size/2 + 1
		rings = append(rings, star(r, cx, cy, rmin, size, 6+r.Intn(20)))
		r2 := float64(rmin) * (0.6 + 0.25*r.Float())
		r1 := r2 * (0.4 + 0.3*r.Float())
		w := float64(1 + r.Intn(int(pixL/2)+1))
		a0 := 2 * math.Pi * r.Float()
		n := 8 + r.Intn(10)
		var moat [][2]int64
		add := func(rad, ang float64) {
			p := [2]int64{cx + int64(math.Round(rad*math.Cos(ang))), cy + int64(math.Round(rad*math.Sin(ang)))}
			if len(moat) == 0 || moat[len(moat)-1] != p {
				moat = append(moat, p)
			}
		}
		g2, g1 := w/2/r2, w/2/r1
		for i := 0; i <= n; i++ {
			add(r2, a0+g2+(2*math.Pi-2*g2)*float64(i)/float64(n))
		}
		for i := n; i >= 0; i-- {
			add(r1, a0+g1+(2*math.Pi-2*g1)*float64(i)/float64(n))
		}
		if len(moat) > 3 && moat[0] == moat[len(moat)-1] {
			moat = moat[:len(moat)-1]
		}
		if area2(moat) > 0 {
			rev(moat)
		}
		rings = append(rings, moat)
		for h, nh := 0, r.Intn(3); h < nh; h++ {
			ang := (float64(h) + 0.5*r.Float()) * 2 * math.Pi / float64(nh)
			d, hr := r1*0.45, int64(r1*0.25)
			if nh == 1 {
				d, hr = r1*0.2*r.Float(), int64(r1*(0.2+0.4*r.Float()))
			}
			if hr < 2 {
				continue
			}
			hole := star(r, cx+int64(d*math.Cos(ang)), cy+int64(d*math.Sin(ang)), hr/2+1, hr, 3+r.Intn(8))
			rev(hole)
			rings = append(rings, hole)
		}
		in.Valid = true
	case x < 9:
		in.Shape = "star"
		rings = append(rings, star(r, cx, cy, size/3+1, size, 3+r.Intn(30)))
		in.Valid = true
	case x < 13:
		in.Shape = "star-with-holes"
		rmin := size/2 + 1
		rings = append(rings, star(r, cx, cy, rmin, size, 4+r.Intn(24)))
		nh := 1 + r.Intn(3)
		// holes in disjoint discs inside the disc of radius rmin
		for h := 0; h < nh; h++ {
			ang := (float64(h) + 0.5*r.Float()) * 2 * math.Pi / float64(nh)
			d := float64(rmin) * 0.5
			hr := int64(float64(rmin) * 0.22)
			if nh == 1 {
				d = float64(rmin) * 0.2 * r.Float()
				hr = int64(float64(rmin) * (0.2 + 0.5*r.Float()))
			}
			if hr < 2 {
				continue
			}
			hx, hy := cx+int64(d*math.Cos(ang)), cy+int64(d*math.Sin(ang))
			hole := star(r, hx, hy, hr/2+1, hr, 3+r.Intn(10))
			rev(hole) // holes clockwise
			rings = append(rings, hole)
		}
		in.Valid = true
	case x < 16:
		in.Shape = "comb"
		rings = append(rings, comb(r, cx-size, cy-size, 2*size, pixL))
		in.Valid = true
	case x < 18:
		in.Shape = "dumbbell"
		rings = append(rings, dumbbell(r, cx-size, cy-size/2, 2*size, pixL))
		in.Valid = true
	default:
		in.Shape = "arbitrary"
		nv := 3 + r.Intn(20)
		var ring [][2]int64
		for i := 0; i < nv; i++ {
			ring = append(ring, [2]int64{cx - size + int64(r.Intn(int(2*size)+1)), cy - size + int64(r.Intn(int(2*size)+1))})
			if r.Chance(0.15) && i > 0 { // repeated vertex / zig-zag
				ring = append(ring, ring[r.Intn(len(ring))])
			}
		}
		rings = append(rings, ring)
		if r.Chance(0.3) {
			var hole [][2]int64
			for i := 0; i < 3+r.Intn(6); i++ {
				hole = append(hole, [2]int64{cx - size/2 + int64(r.Intn(int(size)+1)), cy - size/2 + int64(r.Intn(int(size)+1))})
			}
			rings = append(rings, hole)
		}
		in.Valid = false
	}
	if r.Chance(0.04) {
		// the same id twice in the list (the library works per level, whatever the list looks like)
		k := r.Intn(len(in.IDs))
		at := r.Intn(len(in.IDs) + 1)
		ids := append([]int(nil), in.IDs[:at]...)
		ids = append(ids, in.IDs[k])
		in.IDs = append(ids, in.IDs[at:]...)
	}
	// a ring may start at any of its vertices
	for ri := range rings {
		if n := len(rings[ri]); n > 1 && r.Chance(0.5) {
			k := r.Intn(n)
			rings[ri] = append(append([][2]int64(nil), rings[ri][k:]...), rings[ri][:k]...)
		}
	}
	if in.Shape == "star-of-many-vertices" && r.Chance(0.7) {
		// a pair of vertices a hair's breadth apart where the count of vertices is round
		// (work done in blocks of 256, 512, 1024 meets its seams there)
		for _, at := range []int{255, 256, 511, 512, 1023, 1024} {
			if at < len(rings[0]) && r.Chance(0.5) {
				in.Twins = append(in.Twins, twin{R: 0, V: at, Eps: float64(1+r.Intn(9)) * math.Pow(10, -float64(2+r.Intn(6)))})
			}
		}
	}
	if r.Chance(0.06) {
		// every vertex in the centre of a pixel of the reference level: what the library itself
		// returns (its output fed back in)
		for ri := range rings {
			var nr [][2]int64
			for _, p := range rings[ri] {
				q := [2]int64{p[0] - mod64(p[0], pixL) + pixL/2, p[1] - mod64(p[1], pixL) + pixL/2}
				if len(nr) == 0 || nr[len(nr)-1] != q {
					nr = append(nr, q)
				}
			}
			if len(nr) > 1 && nr[0] == nr[len(nr)-1] {
				nr = nr[:len(nr)-1]
			}
			rings[ri] = nr
		}
		if len(rings[0]) < 3 {
			rings = rings[:1]
			rings[0] = [][2]int64{{cx - mod64(cx, pixL) + pixL/2, cy - mod64(cy, pixL) + pixL/2}, {cx - mod64(cx, pixL) + pixL/2 + 3*pixL, cy - mod64(cy, pixL) + pixL/2}, {cx - mod64(cx, pixL) + pixL/2, cy - mod64(cy, pixL) + pixL/2 + 2*pixL}}
		}
		kept := rings[:1]
		for _, h := range rings[1:] {
			if len(h) >= 3 {
				kept = append(kept, h)
			}
		}
		rings = kept
		in.Shape += "/on-grid"
	} else if r.Chance(0.08) {
		// digitising noise: a vertex on a pixel edge of the deepest level and a second one a
		// hair's breadth further along the ring, on the other side of that edge
		for k, n := 0, 1+r.Intn(3); k < n; k++ {
			ri := r.Intn(len(rings))
			vi := r.Intn(len(rings[ri]))
			axis := r.Intn(2)
			rings[ri][vi][axis] -= mod64(rings[ri][vi][axis], 8)
			in.Twins = append(in.Twins, twin{R: ri, V: vi, Eps: float64(1+r.Intn(9)) * math.Pow(10, -float64(6+r.Intn(4)))})
		}
		in.Shape += "/twin-vertices"
	}
	if r.Chance(0.05) {
		// partly outside the grid, with the ignore flag: the answer (nothing) must not depend on
		// anything either. Vertices keep clear of the one-pixel band just outside the edge,
		// where the library does not recognise them as outside (another property's business).
		in.IgnoreOut = true
		shift := cx + size/2
		band := int64(g.pix[deep]/unit) * 3
		for ri := range rings {
			for vi := range rings[ri] {
				rings[ri][vi][0] -= shift
				if x := rings[ri][vi][0]; x < 0 && x > -band {
					rings[ri][vi][0] = -band
				}
			}
		}
		in.Shape += "/partly-outside"
		in.Valid = false
	}
	if in.Valid && !simplePolygon(rings) {
		in.Valid = false
		in.Shape += "/invalid-after-lattice-rounding"
	}
	in.Lattice, in.OX, in.OY, in.Unit = rings, g.minX, g.minY, unit
	in.materialise()
	// oracle 3: a random non-empty subset of rings reversed
	for i := range in.Rings {
		if r.Chance(0.6) {
			in.RevRings = append(in.RevRings, i)
		}
	}
	if len(in.RevRings) == 0 {
		in.RevRings = []int{r.Intn(len(in.Rings))}
	}
	return in
}

// materialise computes the float rings from the lattice rings.
func (in *snapInput) materialise() {
	in.Rings = nil
	for _, ring := range in.Lattice {
		var fr [][2]float64
		for _, p := range ring {
			fr = append(fr, [2]float64{in.OX + float64(p[0])*in.Unit, in.OY + float64(p[1])*in.Unit})
		}
		in.Rings = append(in.Rings, fr)
	}
	// twins, highest vertex index first so that the indices stay valid
	tw := append([]twin(nil), in.Twins...)
	sort.SliceStable(tw, func(i, j int) bool { return tw[i].V > tw[j].V })
	for _, t := range tw {
		if t.R >= len(in.Rings) || t.V >= len(in.Rings[t.R]) || len(in.Rings[t.R]) < 3 {
			continue
		}
		ring := in.Rings[t.R]
		a, b := ring[t.V], ring[(t.V+1)%len(ring)]
		d := math.Hypot(b[0]-a[0], b[1]-a[1])
		if d <= 4*t.Eps {
			continue
		}
		q := [2]float64{a[0] + (b[0]-a[0])*t.Eps/d, a[1] + (b[1]-a[1])*t.Eps/d}
		if q == a {
			continue
		}
		nr := append([][2]float64(nil), ring[:t.V+1]...)
		nr = append(nr, q)
		nr = append(nr, ring[t.V+1:]...)
		in.Rings[t.R] = nr
	}
}

func mod64(a, m int64) int64 {
	r := a % m
	if r < 0 {
		r += m
	}
	return r
}

func minI64(a, b int64) int64 {
	if a < b {
		return a
	}
	return b
}

func rev(r [][2]int64) {
	for i, j := 0, len(r)-1; i < j; i, j = i+1, j-1 {
		r[i], r[j] = r[j], r[i]
	}
}

// star: counter-clockwise star-shaped polygon around (cx, cy), radii in [rmin, rmax].
func star(r *simrt.RNG, cx, cy, rmin, rmax int64, n int) [][2]int64 {
	angles := make([]float64, n)
	for i := range angles {
		angles[i] = (float64(i) + 0.8*r.Float()) * 2 * math.Pi / float64(n)
	}
	var ring [][2]int64
	for _, a := range angles {
		rad := float64(rmin) + r.Float()*float64(rmax-rmin)
		if r.Chance(0.2) {
			rad = float64(rmin) // deep notches
		}
		p := [2]int64{cx + int64(math.Round(rad*math.Cos(a))), cy + int64(math.Round(rad*math.Sin(a)))}
		if len(ring) > 0 && ring[len(ring)-1] == p {
			continue
		}
		ring = append(ring, p)
	}
	return ring
}

// comb: a base with teeth whose width and gaps are around a pixel of the reference level.
func comb(r *simrt.RNG, x0, y0, w, pix int64) [][2]int64 {
	teeth := 2 + r.Intn(4)
	tw := maxI64(1, pix/4+int64(r.Intn(int(pix)+1)))
	gap := maxI64(1, pix/4+int64(r.Intn(int(pix)+1)))
	base := maxI64(2, pix/2+int64(r.Intn(int(2*pix)+1)))
	th := maxI64(2, pix+int64(r.Intn(int(4*pix)+1)))
	ring := [][2]int64{{x0, y0}}
	x := x0
	for i := 0; i < teeth; i++ {
		x += tw
		ring = append(ring, [2]int64{x, y0}) // bottom edge (with extra vertices)
		if i < teeth-1 {
			x += gap
			ring = append(ring, [2]int64{x, y0})
		}
	}
	right := x
	// walk back along the top, up and down the teeth
	ring = append(ring, [2]int64{right, y0 + base + th})
	for i := teeth - 1; i >= 0; i-- {
		xl := x0 + int64(i)*(tw+gap)
		ring = append(ring, [2]int64{xl, y0 + base + th})
		if i > 0 {
			ring = append(ring, [2]int64{xl, y0 + base}, [2]int64{xl - gap, y0 + base})
		}
	}
	_ = w
	return dedupe(ring)
}

func dumbbell(r *simrt.RNG, x0, y0, w, pix int64) [][2]int64 {
	blob := maxI64(3, pix+int64(r.Intn(int(3*pix)+1)))
	neckW := maxI64(1, pix/8+int64(r.Intn(int(pix/2)+1))) // narrower than a pixel
	neckL := maxI64(2, pix+int64(r.Intn(int(4*pix)+1)))
	mid := y0 + blob/2
	ring := [][2]int64{
		{x0, y0}, {x0 + blob, y0}, {x0 + blob, mid - neckW/2 - 0},
		{x0 + blob + neckL, mid - neckW/2}, {x0 + blob + neckL, y0}, {x0 + 2*blob + neckL, y0},
		{x0 + 2*blob + neckL, y0 + blob}, {x0 + blob + neckL, y0 + blob}, {x0 + blob + neckL, mid - neckW/2 + neckW},
		{x0 + blob, mid - neckW/2 + neckW}, {x0 + blob, y0 + blob}, {x0, y0 + blob},
	}
	_ = w
	return dedupe(ring)
}

func dedupe(ring [][2]int64) [][2]int64 {
	var out [][2]int64
	for _, p := range ring {
		if len(out) > 0 && out[len(out)-1] == p {
			continue
		}
		out = append(out, p)
	}
	if len(out) > 1 && out[0] == out[len(out)-1] {
		out = out[:len(out)-1]
	}
	return out
}

func maxI64(a, b int64) int64 {
	if a > b {
		return a
	}
	return b
}

// --- exact validity check on the integer lattice (big enough for |coords| < 2^31)

func orient(a, b, c [2]int64) int {
	v := (b[0]-a[0])*(c[1]-a[1]) - (b[1]-a[1])*(c[0]-a[0])
	switch {
	case v > 0:
		return 1
	case v < 0:
		return -1
	}
	return 0
}

func onSeg(a, b, p [2]int64) bool {
	return minI64(a[0], b[0]) <= p[0] && p[0] <= maxI64(a[0], b[0]) && minI64(a[1], b[1]) <= p[1] && p[1] <= maxI64(a[1], b[1])
}

func segsTouch(a, b, c, d [2]int64) bool {
	o1, o2, o3, o4 := orient(a, b, c), orient(a, b, d), orient(c, d, a), orient(c, d, b)
	if o1 != o2 && o3 != o4 {
		return true
	}
	return (o1 == 0 && onSeg(a, b, c)) || (o2 == 0 && onSeg(a, b, d)) || (o3 == 0 && onSeg(c, d, a)) || (o4 == 0 && onSeg(c, d, b))
}

func area2(r [][2]int64) int64 {
	var s int64
	for i := range r {
		j := (i + 1) % len(r)
		s += r[i][0]*r[j][1] - r[j][0]*r[i][1]
	}
	return s
}

func pointInRing(p [2]int64, r [][2]int64) bool {
	in := false
	for i := range r {
		a, b := r[i], r[(i+1)%len(r)]
		if (a[1] > p[1]) != (b[1] > p[1]) {
			// x of the crossing compared exactly
			lhs := (p[0] - a[0]) * (b[1] - a[1])
			rhs := (b[0] - a[0]) * (p[1] - a[1])
			if b[1] > a[1] {
				if lhs < rhs {
					in = !in
				}
			} else if lhs > rhs {
				in = !in
			}
		}
	}
	return in
}

// simplePolygon: every ring simple with non-zero area, no two rings touching, every
// hole inside the shell and outside the other holes.
func simplePolygon(rings [][][2]int64) bool {
	for _, r := range rings {
		if len(r) < 3 || area2(r) == 0 {
			return false
		}
		n := len(r)
		for i := 0; i < n; i++ {
			for j := i + 1; j < n; j++ {
				if j == i+1 || (i == 0 && j == n-1) {
					// adjacent edges: must not fold back onto each other
					a, b, c := r[i], r[(i+1)%n], r[(i+2)%n]
					if i == 0 && j == n-1 {
						a, b, c = r[n-1], r[0], r[1]
					}
					if orient(a, b, c) == 0 && !(onSeg(a, c, b)) {
						return false
					}
					continue
				}
				if segsTouch(r[i], r[(i+1)%n], r[j], r[(j+1)%n]) {
					return false
				}
			}
		}
	}
	for i := 0; i < len(rings); i++ {
		for j := i + 1; j < len(rings); j++ {
			a, b := rings[i], rings[j]
			for x := range a {
				for y := range b {
					if segsTouch(a[x], a[(x+1)%len(a)], b[y], b[(y+1)%len(b)]) {
						return false
					}
				}
			}
			if i == 0 {
				if !pointInRing(b[0], a) {
					return false
				}
			} else if pointInRing(b[0], a) || pointInRing(a[0], b) {
				return false
			}
		}
	}
	return true
}

// ------------------------------------------------------------------------------------
// evaluation

type result struct {
	panicked bool
	panicMsg string
	byID     map[int][]geom.Polygon
}

func toPolygon(rings [][][2]float64) geom.Polygon {
	p := make(geom.Polygon, len(rings))
	for i, r := range rings {
		p[i] = append([][2]float64(nil), r...)
	}
	return p
}

func call(in *snapInput, ids []int, rings [][][2]float64, reverseFlag bool) (res result) {
	defer func() {
		if r := recover(); r != nil {
			res.panicked = true
			res.panicMsg = fmt.Sprint(r)
		}
	}()
	cfg := snap.Config{KeepPointsAndLines: in.Keep, IgnoreOutsideGrid: in.IgnoreOut, ReverseWindingOrder: reverseFlag}
	res.byID = snap.SnapPolygon(toPolygon(rings), loadTMS(in.TMS), append([]int(nil), ids...), cfg)
	return res
}

// canon renders a result literally (bit-exact coordinates, order preserved).
func canon(r result) string {
	if r.panicked {
		return "PANIC"
	}
	ids := make([]int, 0, len(r.byID))
	for id := range r.byID {
		ids = append(ids, id)
	}
	sort.Ints(ids)
	var b strings.Builder
	for _, id := range ids {
		fmt.Fprintf(&b, "%d:", id)
		for _, p := range r.byID[id] {
			b.WriteString("P")
			for _, ring := range p {
				b.WriteString("R")
				for _, pt := range ring {
					fmt.Fprintf(&b, "%x,%x;", math.Float64bits(pt[0]), math.Float64bits(pt[1]))
				}
			}
		}
		b.WriteString("|")
	}
	return b.String()
}

func describe(r result) string {
	if r.panicked {
		return "panic: " + r.panicMsg
	}
	ids := make([]int, 0, len(r.byID))
	for id := range r.byID {
		ids = append(ids, id)
	}
	sort.Ints(ids)
	var b strings.Builder
	for _, id := range ids {
		fmt.Fprintf(&b, "tm %d: %v; ", id, r.byID[id])
	}
	s := b.String()
	if len(s) > 1500 {
		s = s[:1500] + "..."
	}
	return s
}

// cyclicEqual: a equals b up to rotation.
func cyclicEqual(a, b [][2]float64) bool {
	if len(a) != len(b) {
		return false
	}
	n := len(a)
	if n == 0 {
		return true
	}
	for s := 0; s < n; s++ {
		ok := true
		for i := 0; i < n; i++ {
			if a[i] != b[(i+s)%n] {
				ok = false
				break
			}
		}
		if ok {
			return true
		}
	}
	return false
}

func reversed(a [][2]float64) [][2]float64 {
	out := make([][2]float64, len(a))
	for i := range a {
		out[len(a)-1-i] = a[i]
	}
	return out
}

func distinctPoints(a [][2]float64) int {
	m := map[[2]float64]bool{}
	for _, p := range a {
		m[p] = true
	}
	return len(m)
}

// sameUpToRotation: same keys, same polygons in the same order, same rings in the same
// order, every ring equal as a cyclic sequence.
func sameUpToRotation(a, b result) bool {
	if a.panicked != b.panicked {
		return false
	}
	if len(a.byID) != len(b.byID) {
		return false
	}
	for id, pa := range a.byID {
		pb, ok := b.byID[id]
		if !ok || len(pa) != len(pb) {
			return false
		}
		for i := range pa {
			if len(pa[i]) != len(pb[i]) {
				return false
			}
			for j := range pa[i] {
				if !cyclicEqual(pa[i][j], pb[i][j]) {
					return false
				}
			}
		}
	}
	return true
}

// onlyDirectionDiffers: the reverse-winding oracle.
func onlyDirectionDiffers(a, b result) (bool, string) {
	if a.panicked != b.panicked {
		return false, "one call panics, the other does not"
	}
	if len(a.byID) != len(b.byID) {
		return false, "different sets of tile matrices"
	}
	for id, pa := range a.byID {
		pb, ok := b.byID[id]
		if !ok {
			return false, fmt.Sprintf("tile matrix %d missing", id)
		}
		if len(pa) != len(pb) {
			return false, fmt.Sprintf("tile matrix %d: %d vs %d polygons", id, len(pa), len(pb))
		}
		for i := range pa {
			if len(pa[i]) != len(pb[i]) {
				return false, fmt.Sprintf("tile matrix %d polygon %d: %d vs %d rings", id, i, len(pa[i]), len(pb[i]))
			}
			for j := range pa[i] {
				ra, rb := pa[i][j], pb[i][j]
				if cyclicEqual(reversed(ra), rb) {
					continue
				}
				// a ring without a direction (fewer than three distinct points) may be left as it is
				if distinctPoints(ra) < 3 && cyclicEqual(ra, rb) {
					continue
				}
				return false, fmt.Sprintf("tile matrix %d polygon %d ring %d: %v vs %v", id, i, j, ra, rb)
			}
		}
	}
	return true, ""
}

type orderSpec struct {
	Policy  string `json:"policy"`
	MapSeed uint64 `json:"map_seed"`
	IDPerm  []int  `json:"id_perm"` // permutation applied to the id list
}

type replayFile struct {
	Property string     `json:"property"`
	Engine   string     `json:"engine"`
	Seed     uint64     `json:"seed"`
	Input    snapInput  `json:"workload"`
	Order    *orderSpec `json:"order,omitempty"` // the order that disagrees with the sorted order (oracle 1)
	Oracle   string     `json:"oracle"`
	Digest   string     `json:"digest,omitempty"` // plain engine: digest another process produced
	// Prelude: evaluate this many preceding seeds first (state kept across calls may make
	// a violation depend on what the process did before)
	Prelude      int             `json:"prelude,omitempty"`
	// HistoryHi: the comparing process evaluated the seeds HistoryHi-1 down to Seed+1 before
	// this one (the reference process evaluated them in ascending order): replayed first
	HistoryHi uint64 `json:"history_hi,omitempty"`
	// BlockLo/BlockHi: the block of seeds the two processes of the digest phases walked
	// (replay = both processes again over a block, on the tree being looked at)
	BlockLo uint64 `json:"block_lo,omitempty"`
	BlockHi uint64 `json:"block_hi,omitempty"`
	Violation    *simh.Violation `json:"violation,omitempty"`
	ShrinkArrays []string        `json:"shrink_arrays"`
	ShrinkInts   []string        `json:"shrink_ints"`
	Trace        []string        `json:"trace,omitempty"`
}

func applyPerm(ids []int, perm []int) []int {
	out := make([]int, 0, len(ids))
	for _, p := range perm {
		if p < len(ids) {
			out = append(out, ids[p])
		}
	}
	if len(out) != len(ids) {
		return append([]int(nil), ids...)
	}
	return out
}

func withReversedRings(in *snapInput) [][][2]float64 {
	rings := make([][][2]float64, len(in.Rings))
	copy(rings, in.Rings)
	for _, i := range in.RevRings {
		if i < len(rings) {
			rings[i] = reversed(rings[i])
		}
	}
	return rings
}

// withReversedRotatedRings: the opposite direction, starting at another vertex: the same
// first vertex (how a closed ring is usually reversed) or some other one.
func withReversedRotatedRings(in *snapInput) [][][2]float64 {
	rings := withReversedRings(in)
	for k, i := range in.RevRings {
		if i < len(rings) {
			if n := len(rings[i]); n > 1 {
				rot := []int{n - 1, n/3 + 1}[(k+len(in.Rings[0]))%2] % n
				rings[i] = append(append([][2]float64(nil), rings[i][rot:]...), rings[i][:rot]...)
			}
		}
	}
	return rings
}

// samePolygonSets: per tile matrix the same polygons, whatever their order in the list,
// the order of their holes and the vertex their rings start with.
func samePolygonSets(a, b result) bool {
	if a.panicked != b.panicked || len(a.byID) != len(b.byID) {
		return false
	}
	ringKey := func(r [][2]float64) string {
		if len(r) == 0 {
			return "()"
		}
		m := 0
		for i := range r {
			if r[i][0] < r[m][0] || (r[i][0] == r[m][0] && r[i][1] < r[m][1]) {
				m = i
			}
		}
		best := ""
		for i := range r { // several vertices may be equal to the smallest: take the smallest rotation
			if r[i] != r[m] {
				continue
			}
			k := fmt.Sprint(append(append([][2]float64(nil), r[i:]...), r[:i]...))
			if best == "" || k < best {
				best = k
			}
		}
		return best
	}
	polyKeys := func(ps []geom.Polygon) []string {
		var out []string
		for _, p := range ps {
			if len(p) == 0 {
				out = append(out, "empty")
				continue
			}
			var holes []string
			for _, h := range p[1:] {
				holes = append(holes, ringKey(h))
			}
			sort.Strings(holes)
			out = append(out, ringKey(p[0])+"|"+strings.Join(holes, "|"))
		}
		sort.Strings(out)
		return out
	}
	for id, pa := range a.byID {
		pb, ok := b.byID[id]
		if !ok || strings.Join(polyKeys(pa), ";") != strings.Join(polyKeys(pb), ";") {
			return false
		}
	}
	return true
}

type evalStats struct {
	calls         int
	effective     uint64
	perSite       map[string]uint64
	probes        simh.Counter
	nontrivial    bool
	orderedInputs int
	r0            string
}

var policies = []simrt.MapPolicy{simrt.MapReverse, simrt.MapShufflePerCall, simrt.MapShufflePerSite, simrt.MapRotate}

// evaluate runs all oracles on one input. orders == nil: draw them from the seed.
func evaluate(in *snapInput, seed uint64, nOrders int, fixed *orderSpec) (*simh.Violation, *orderSpec, string, evalStats) {
	st := evalStats{perSite: map[string]uint64{}, probes: simh.Counter{}}
	r := simrt.NewRNG(seed, "snapsim-orders")
	simrt.SetMapOrder(simrt.MapSorted, 0)
	clock0 := simrt.ClockReads()
	r0 := call(in, in.IDs, in.Rings, in.Reverse)
	st.calls++
	c0 := canon(r0)
	st.r0 = c0
	probe(in, r0, &st)
	// oracle 1: every iteration order, every order of the id list
	var orders []orderSpec
	if fixed != nil {
		orders = []orderSpec{*fixed}
	} else {
		for i := 0; i < nOrders; i++ {
			p := policies[i%len(policies)]
			orders = append(orders, orderSpec{Policy: p.String(), MapSeed: r.Uint64(), IDPerm: r.Perm(len(in.IDs))})
		}
	}
	for _, o := range orders {
		p, ok := simrt.ParseMapPolicy(o.Policy)
		if !ok {
			simh.Fatalf("bad policy %q", o.Policy)
		}
		simrt.SetMapOrder(p, o.MapSeed)
		ri := call(in, applyPerm(in.IDs, o.IDPerm), in.Rings, in.Reverse)
		ms, _ := simrt.TakeMapStats()
		st.calls++
		st.effective += ms.Effective
		for k, v := range ms.PerSite {
			st.perSite[k] += v
		}
		if ms.Effective > 0 {
			st.orderedInputs++
		}
		if canon(ri) != c0 {
			oc := o
			simrt.SetMapOrder(simrt.MapNative, 0)
			return &simh.Violation{Class: "determinism/map-order", Message: fmt.Sprintf(
				"same polygon, same settings, different result under map iteration order %s (seed %d, id list %v): sorted order gives %s ; this order gives %s",
				o.Policy, o.MapSeed, applyPerm(in.IDs, o.IDPerm), describe(r0), describe(ri))}, &oc, "map-order", st
		}
	}
	simrt.SetMapOrder(simrt.MapSorted, 0)
	// oracle 5 (every repetition, whatever ran before): an unrelated call with other
	// settings in between must not change the answer (state kept across calls)
	{
		other := genInput(seed ^ 0x5bd1e995)
		other.Keep = !in.Keep
		_ = call(&other, other.IDs, other.Rings, other.Reverse)
		// ... and two related calls on the same grid and deepest level: the polygon moved
		// half way out of the grid (skipped, ignore flag on), and moved by a few pixels
		for _, variant := range []string{"half-outside", "nearby", "nearby-then-outside"} {
			rel := relatedInput(in, variant)
			_ = call(&rel, rel.IDs, rel.Rings, rel.Reverse)
			st.calls++
		}
		r5 := call(in, in.IDs, in.Rings, in.Reverse)
		st.calls += 2
		st.probes.Inc("oracle5-repetition-after-unrelated-call")
		if canon(r5) != c0 {
			simrt.SetMapOrder(simrt.MapNative, 0)
			return &simh.Violation{Class: "determinism/history", Message: fmt.Sprintf(
				"the same call returns different geometry after an unrelated call (tms %s ids %v) was made in between: first %s ; then %s", other.TMS, other.IDs, describe(r0), describe(r5))}, nil, "history", st
		}
	}
	if simrt.ClockReads() > clock0 {
		// oracle 7: the snapping code reads the clock (a time budget, a seed, a tie-break): with
		// the clock frozen and with a clock that races ahead the answer must be the same
		for _, mode := range []int{1, 2} {
			simrt.SetClock(mode)
			r7 := call(in, in.IDs, in.Rings, in.Reverse)
			simrt.SetClock(0)
			st.calls++
			st.probes.Inc("oracle7-clock-independence")
			if canon(r7) != c0 {
				simrt.SetMapOrder(simrt.MapNative, 0)
				return &simh.Violation{Class: "determinism/clock", Message: fmt.Sprintf(
					"same polygon, same settings, different result when the clock the code reads %s: %s ; under the real clock %s", map[int]string{1: "stands still", 2: "races ahead (37 ms per reading)"}[mode], describe(r7), describe(r0))}, nil, "clock", st
			}
		}
	}
	if schedOn && !r0.panicked {
		// oracle 6: goroutines inside the snapping code, under three seeded schedules
		for k := uint64(1); k <= 3; k++ {
			r6, bad := callScheduled(in, seed*4+k)
			st.calls++
			st.probes.Inc("oracle6-schedule-independence")
			if bad != "" {
				simrt.SetMapOrder(simrt.MapNative, 0)
				return &simh.Violation{Class: "determinism/schedule-" + strings.SplitN(bad, ":", 2)[0], Message: "snapping inside the scheduler (schedule seed " + strconv.FormatUint(seed*4+k, 10) + "): " + bad}, nil, "schedule", st
			}
			if canon(r6) != c0 {
				simrt.SetMapOrder(simrt.MapNative, 0)
				return &simh.Violation{Class: "determinism/schedule", Message: fmt.Sprintf(
					"same polygon, same settings, different result under goroutine schedule seed %d: %s ; sequential-looking run gave %s", seed*4+k, describe(r6), describe(r0))}, nil, "schedule", st
			}
		}
	}
	if in.Valid && !r0.panicked {
		// oracle 3: rings handed over in the opposite direction
		r3 := call(in, in.IDs, withReversedRings(in), in.Reverse)
		st.calls++
		st.probes.Inc("oracle3-ring-direction")
		if !sameUpToRotation(r0, r3) {
			simrt.SetMapOrder(simrt.MapNative, 0)
			return &simh.Violation{Class: "ring-direction", Message: fmt.Sprintf(
				"valid polygon, rings %v given in the opposite direction: result %s ; original direction gives %s", in.RevRings, describe(r3), describe(r0))}, nil, "ring-direction", st
		}
		if canon(r3) != c0 {
			st.probes.Inc("oracle3-differs-by-ring-rotation-only")
		}
		// ... and in the opposite direction starting at another vertex: a PROBE, not an oracle.
		// C07 speaks about direction (the repository's own tests mirror the vertex list), not
		// about the vertex a ring starts with, and in the pinned tree the result does depend on
		// it: with keep-points-and-lines the ring [A B C D] and the same ring written
		// [A D C B] can differ by a line remnant (synthetic:6, id 2, ring (2177 5762) (2166 5752)
		// (2144 5768) (2129 5651) in lattice units). Counted on a sample, never reported.
		if seed%16 == 0 {
			r3b := call(in, in.IDs, withReversedRotatedRings(in), in.Reverse)
			st.calls++
			st.probes.Inc("probe:opposite-direction-from-another-start-vertex")
			if !samePolygonSets(r0, r3b) {
				st.probes.Inc("probe:opposite-direction-from-another-start-vertex:other-polygons(keep=" + strconv.FormatBool(in.Keep) + ")")
			}
		}
		// oracle 4: reverse-winding flag flipped
		r4 := call(in, in.IDs, in.Rings, !in.Reverse)
		st.calls++
		st.probes.Inc("oracle4-reverse-flag")
		if ok, why := onlyDirectionDiffers(r0, r4); !ok {
			simrt.SetMapOrder(simrt.MapNative, 0)
			return &simh.Violation{Class: "reverse-winding-flag", Message: fmt.Sprintf(
				"flipping the reverse-winding flag changed more than ring direction: %s ; flag=%v gives %s ; flag=%v gives %s", why, in.Reverse, describe(r0), !in.Reverse, describe(r4))}, nil, "reverse-flag", st
		}
	}
	simrt.SetMapOrder(simrt.MapNative, 0)
	st.nontrivial = st.effective > 0
	return nil, nil, "", st
}

// relatedInput derives another call on the same grid and ids from an input.
func relatedInput(in *snapInput, variant string) snapInput {
	rel := *in
	rel.Lattice = make([][][2]int64, len(in.Lattice))
	minX, maxX := int64(math.MaxInt64), int64(math.MinInt64)
	for _, ring := range in.Lattice {
		for _, p := range ring {
			minX, maxX = minI64(minX, p[0]), maxI64(maxX, p[0])
		}
	}
	dx, dy := int64(24), int64(16) // a few pixels of the deepest level (8 lattice units each)
	if variant == "half-outside" {
		dx, dy = -(minX + (maxX-minX)/2), 0
		rel.IgnoreOut = true
	}
	for i, ring := range in.Lattice {
		rel.Lattice[i] = make([][2]int64, len(ring))
		for j, p := range ring {
			x := p[0] + dx
			if variant == "half-outside" && x < 0 && x > -24 {
				x = -24 // stay clear of the band in which the library does not see "outside"
			}
			rel.Lattice[i][j] = [2]int64{x, p[1] + dy}
		}
	}
	if variant == "nearby-then-outside" && len(rel.Lattice) > 0 && len(rel.Lattice[0]) > 0 {
		// the same neighbourhood, but the shell's last vertex lies far outside the grid: with
		// the ignore flag the polygon is skipped after its other vertices were looked at
		y := rel.Lattice[0][0][1]
		rel.Lattice[0] = append(rel.Lattice[0], [2]int64{-4000, y})
		rel.IgnoreOut = true
	}
	rel.materialise()
	return rel
}

func probe(in *snapInput, r0 result, st *evalStats) {
	p := st.probes
	p.Inc("shape=" + in.Shape)
	p.Inc("ids=" + strconv.Itoa(len(in.IDs)))
	if strings.HasPrefix(in.TMS, "synthetic") {
		p.Inc("tms=synthetic")
	} else {
		p.Inc("tms=" + in.TMS)
	}
	if r0.panicked {
		p.Inc("snap-panicked(same-under-every-order-required)")
		return
	}
	if in.Valid {
		p.Inc("valid-input")
	}
	if len(r0.byID) < len(in.IDs) {
		p.Inc("level-dropped-while-another-survived-or-all-dropped")
	}
	if len(r0.byID) == 0 {
		p.Inc("nothing-returned")
	}
	multi, holes, lines := false, false, false
	for _, ps := range r0.byID {
		if len(ps) > 1 {
			multi = true
		}
		for _, poly := range ps {
			if len(poly) > 1 {
				holes = true
			}
			if len(poly) == 1 && len(poly[0]) < 3 {
				lines = true
			}
		}
	}
	if multi {
		p.Inc("several-polygons-at-some-level")
	}
	if holes {
		p.Inc("result-with-holes")
	}
	if lines {
		p.Inc("keep-points-and-lines-produced-lines")
	}
}

// ------------------------------------------------------------------------------------
// entry point

// schedT / schedOn: when the snapping code itself starts goroutines (a changed tree; the
// pinned one does not), every input is additionally snapped inside a synctest bubble under
// three seeded schedules, and the result must not depend on the schedule (oracle 6).
var (
	schedT  *testing.T
	schedOn bool
)

func callScheduled(in *snapInput, schedSeed uint64) (res result, outcome string) {
	fr := simrt.NewRNG(schedSeed, "snapsim-sched")
	fp := simrt.FaultPlan{Policy: simrt.Policy(fr.Intn(4)), StallRate: 0.1 * fr.Float(), StallMax: 1 + fr.Intn(20),
		LateStartRate: 0.5 * fr.Float(), LateStartMax: 1 + fr.Intn(20), BurstRate: 0.1 * fr.Float(), BurstMax: 1 + fr.Intn(5), SlowFrac: 0.3, PCTDepth: 1 + fr.Intn(3)}
	opt := simrt.Options{Seed: schedSeed, Faults: fp, MaxSteps: 200000}
	sim, leak := simh.RunBubble(schedT, opt, func() {
		res = call(in, in.IDs, in.Rings, in.Reverse)
	}, nil)
	switch {
	case sim.Outcome != "ok":
		return res, sim.Outcome + ": " + sim.Detail
	case leak != "":
		return res, "goroutine-leak: " + leak
	}
	return res, ""
}

func TestVerifSnapsim(t *testing.T) {
	schedT = t
	job, err := simh.LoadJob()
	if err != nil {
		t.Fatal(err)
	}
	if job == nil {
		t.Skip("no VERIF_JOB")
	}
	out, err := simh.OpenOut(job.Out)
	if err != nil {
		t.Fatal(err)
	}
	defer out.Close()
	log.SetOutput(io.Discard)
	schedOn = job.Extra["concurrent"] == "1"
	switch job.Mode {
	case "explore":
		explore(job, out)
	case "digests":
		digests(job, out)
	case "candidates":
		candidates(job, out)
	default:
		simh.Fatalf("unknown mode %q", job.Mode)
	}
}

func mkReplay(job *simh.Job, seed uint64, in snapInput, o *orderSpec, oracle string, v *simh.Violation) replayFile {
	return replayFile{Property: job.Property, Engine: job.Engine, Seed: seed, Input: in, Order: o, Oracle: oracle, Violation: v,
		ShrinkArrays: []string{"workload.rings", "workload.rings.*", "workload.ids", "workload.reverse_rings"}}
}

func explore(job *simh.Job, out *simh.Out) {
	sum := simh.NewSummary("snapsim", job.Mode, job.SeedLo)
	digests := simh.NewDigestSet(4000000)
	dl := simh.NewDeadline(job.BudgetS)
	t0 := time.Now()
	nOrders := 4
	if job.Tier == "thorough" {
		nOrders = 12
	}
	for seed := job.SeedLo; seed < job.SeedHi; seed++ {
		if dl.Expired() {
			break
		}
		out.Line(map[string]interface{}{"t": "start", "seed": seed})
		in := genInput(seed)
		simh.StreamReplay(job, func() interface{} { return mkReplay(job, seed, in, nil, "crash", nil) })
		v, order, oracle, st := evaluate(&in, seed, nOrders, nil)
		sum.Runs++
		sum.SeedNext = seed + 1
		sum.Steps += int64(st.calls)
		sum.Probes.Merge(st.probes)
		sum.Fired.Add("map-perm", int64(st.effective))
		for k, n := range st.perSite {
			sum.MapSites.Add(k, int64(n))
		}
		sum.Oracles.Add("oracle1-map-order-and-id-order-comparisons", int64(nOrders))
		if st.nontrivial {
			sum.NonTrivial++
			ij, _ := json.Marshal(in)
			digests.Add(simrt.HashString(string(ij)))
		}
		if v != nil && job.IsKnown(v.Class) {
			sum.Oracles.Inc("known:" + v.Class)
		} else if v != nil {
			out.Line(map[string]interface{}{"t": "violation", "seed": seed, "replay": mkReplay(job, seed, in, order, oracle, v)})
			break
		}
		if len(sum.Samples) < job.Samples && st.nontrivial && len(in.Rings[0]) <= 8 {
			b, _ := json.Marshal(map[string]interface{}{"seed": seed, "input": in, "orders_compared": nOrders, "snap_calls": st.calls,
				"effective_permutations": st.effective, "result_under_sorted_order": st.r0})
			sum.Samples = append(sum.Samples, b)
		}
	}
	simh.WriteDigests(job.Out+".digests", digests.Slice())
	sum.DigestsTotal = int64(digests.Len())
	sum.WallS = time.Since(t0).Seconds()
	out.Line(sum)
}

// digests: result digest per seed under whatever order this binary has (sorted in the
// instrumented build, Go's own randomised order in the plain build), repeated `rep`
// times in this process. The driver compares the files of several processes.
func digests(job *simh.Job, out *simh.Out) {
	sum := simh.NewSummary("snapsim-digests", job.Mode, job.SeedLo)
	rep, _ := strconv.Atoi(job.Extra["repeat"])
	if rep < 1 {
		rep = 1
	}
	if job.Extra["order"] == "sorted" {
		simrt.SetMapOrder(simrt.MapSorted, 0)
	}
	var ds []uint64
	var ref []uint64
	if d := job.Extra["ref_dir"]; d != "" && job.Extra["role"] == "compare" {
		ref = simh.ReadDigests(d + "/ref-" + strconv.FormatUint(job.SeedLo, 10) + ".digests")
		if uint64(len(ref)) != job.SeedHi-job.SeedLo {
			simh.Fatalf("reference digests: have %d, want %d", len(ref), job.SeedHi-job.SeedLo)
		}
	}
	// the comparing process walks its block of seeds downwards, the reference process upwards:
	// state kept across calls (a cache, a pool) then meets every input with another history
	reverse := job.Extra["reverse"] == "1" && job.Extra["role"] == "compare"
	for i := uint64(0); i < job.SeedHi-job.SeedLo; i++ {
		seed := job.SeedLo + i
		if reverse {
			seed = job.SeedHi - 1 - i
		}
		in := genInput(seed)
		// the same polygon is also snapped for other levels (another deepest level, same
		// area); the reference process does that after, the comparing process before the
		// call proper: state kept per quadrant or per pixel across calls shows as a difference
		ids2 := otherLevels(&in, seed)
		second := ""
		if reverse && ids2 != nil {
			second = canon(call(&in, ids2, in.Rings, in.Reverse))
		}
		first := ""
		for k := 0; k < rep; k++ {
			c := canon(call(&in, in.IDs, in.Rings, in.Reverse))
			if k == 0 {
				first = c
			} else if c != first {
				v := &simh.Violation{Class: "determinism/repetition", Message: "the same call repeated in one process returned different geometry (Go's own map randomisation)"}
				rf := mkReplay(job, seed, in, nil, "repetition", v)
				rf.Engine = "snapsim-plain"
				out.Line(map[string]interface{}{"t": "violation", "seed": seed, "replay": rf})
				sum.SeedNext = seed
				out.Line(sum)
				return
			}
		}
		if !reverse && ids2 != nil {
			second = canon(call(&in, ids2, in.Rings, in.Reverse))
		}
		d := simrt.HashString(first + "|" + second)
		if ref != nil && ref[seed-job.SeedLo] != d {
			v := &simh.Violation{Class: "determinism/process-repetition", Message: "the un-instrumented library in another process (Go's own map randomisation; the inputs of its block evaluated in the opposite order) returned geometry different from the instrumented library under the sorted order, for the same input"}
			rf := mkReplay(job, seed, in, nil, "process-repetition", v)
			rf.Engine = "snapsim-plain"
			if reverse {
				rf.HistoryHi = job.SeedHi
			}
			rf.BlockLo, rf.BlockHi = job.SeedLo, job.SeedHi
			rf.ShrinkArrays = nil // the inputs of a block are regenerated from their seeds
			rf.Digest = strconv.FormatUint(ref[seed-job.SeedLo], 16)
			out.Line(map[string]interface{}{"t": "violation", "seed": seed, "replay": rf})
			sum.SeedNext = seed
			out.Line(sum)
			return
		}
		ds = append(ds, d)
		sum.Runs++
		sum.SeedNext = seed + 1
	}
	if d := job.Extra["ref_dir"]; d != "" && job.Extra["role"] == "reference" {
		simh.WriteDigests(d+"/ref-"+strconv.FormatUint(job.SeedLo, 10)+".digests", ds)
	}
	simh.WriteDigests(job.Out+".digests", ds)
	out.Line(sum)
}

// otherLevels: the ids of the second call of the digest phases: the same list with its
// deepest id replaced by a neighbouring level of the same tile matrix set (nil if there is
// none).
func otherLevels(in *snapInput, seed uint64) []int {
	if len(in.IDs) == 0 {
		return nil
	}
	t := loadTMS(in.TMS)
	deep, at := in.IDs[0], 0
	have := map[int]bool{}
	for i, id := range in.IDs {
		have[id] = true
		if id > deep {
			deep, at = id, i
		}
	}
	var cands []int
	for _, d := range []int{deep - 1, deep + 1, deep - 2, deep + 2, deep - 5} {
		if _, ok := t.TileMatrices[d]; ok && d >= 0 && !have[d] {
			cands = append(cands, d)
		}
	}
	if len(cands) == 0 {
		return nil
	}
	ids := append([]int(nil), in.IDs...)
	ids[at] = cands[int(seed%uint64(len(cands)))]
	return ids
}

func candidates(job *simh.Job, out *simh.Out) {
	for i, raw := range job.Candidates {
		var rf replayFile
		if err := json.Unmarshal(raw, &rf); err != nil {
			simh.Fatalf("candidate %d: %v", i, err)
		}
		out.Line(map[string]interface{}{"t": "start", "cand": i})
		class, msg := "", ""
		rf.Input.materialise()
		// a shrunk polygon keeps its "valid" claim only if it still is valid (exact check)
		rf.Input.Valid = rf.Input.Valid && simplePolygon(rf.Input.Lattice)
		ok := len(rf.Input.Rings) > 0 && len(rf.Input.Rings[0]) > 0 && len(rf.Input.IDs) > 0
		for _, i := range rf.Input.RevRings {
			if i >= len(rf.Input.Rings) {
				ok = false
			}
		}
		switch {
		case !ok:
		case rf.Oracle == "repetition" || rf.Oracle == "process-repetition":
			// plain build: repeat the call; compare with each other and with the recorded digest
			first := ""
			ids2 := otherLevels(&rf.Input, rf.Seed)
			for k := 0; k < 64 && class == ""; k++ {
				second := ""
				if ids2 != nil && k == 0 {
					second = canon(call(&rf.Input, ids2, rf.Input.Rings, rf.Input.Reverse))
				}
				c := canon(call(&rf.Input, rf.Input.IDs, rf.Input.Rings, rf.Input.Reverse))
				if ids2 != nil && k > 0 {
					second = canon(call(&rf.Input, ids2, rf.Input.Rings, rf.Input.Reverse))
				}
				d := strconv.FormatUint(simrt.HashString(c+"|"+second), 16)
				if k == 0 {
					first = c
				}
				_ = d // (the digest another process produced belongs to the tree it ran on: not compared here)
				if c != first {
					class, msg = rf.Violation.Class, "repeated call returned different geometry"
				}
			}
		default:
			if rf.Oracle == "schedule" {
				schedOn = true
			}
			for k := rf.Prelude; k >= 1; k-- {
				if rf.Seed >= uint64(k) {
					pin := genInput(rf.Seed - uint64(k))
					evaluate(&pin, rf.Seed-uint64(k), 4, nil)
				}
			}
			in := rf.Input
			if rf.Oracle != "map-order" {
				rf.Order = nil
			}
			n := 4
			if rf.Order != nil {
				n = 1
			}
			v, _, _, _ := evaluate(&in, rf.Seed, n, rf.Order)
			if v != nil {
				class, msg = v.Class, v.Message
			}
		}
		out.Line(map[string]interface{}{"t": "cand", "cand": i, "class": class, "message": msg})
		if job.WantClass != "" && class == job.WantClass {
			break
		}
	}
	out.Line(map[string]interface{}{"t": "done"})
}
