package gpkgh

import (
	"fmt"
	"math"
	"sort"
	"strings"
)

// ExpRow is what the reference model predicts for one row of a target table.
type ExpRow struct {
	Vals []Val
	// Geom: exact geometry expected (copy tables, direct writer tests). nil with
	// NullGeom=false and Polys != nil: polygonal result compared as a multiset of polygons.
	Geom     *G
	NullGeom bool
	Polys    [][][][2]float64
	Label    string // e.g. "source row 12"
}

type ExpTable struct {
	Name     string
	Columns  []Column
	GeomCol  string
	GeomType string
	SRSID    int
	Rows     []ExpRow
}

// Mismatch is a model violation; Class is stable, Msg carries the details.
type Mismatch struct{ Class, Msg string }

func mm(class, format string, args ...interface{}) *Mismatch {
	return &Mismatch{Class: class, Msg: fmt.Sprintf(format, args...)}
}

func polyKey(p [][][2]float64) string {
	g := G{T: TPolygon, L: p}
	return g.Normalised().Key()
}

func polysOf(g *G) ([][][][2]float64, bool) {
	switch g.T {
	case TPolygon:
		return [][][][2]float64{g.L}, true
	case TMultiPolygon:
		return g.M, true
	}
	return nil, false
}

func ulp32(v float64) float64 {
	f := float32(v)
	if f == 0 {
		return float64(math.SmallestNonzeroFloat32)
	}
	n := math.Nextafter32(f, float32(math.Inf(1)))
	return math.Abs(float64(n) - float64(f))
}

// CheckTable compares one dumped feature table with the model: rows in order
// (attributes with their SQLite types, geometry, SRS id in the blob header), spatial
// index, recorded extent, geometry-columns row and schema.
func CheckTable(d *FileDump, e *ExpTable, srs *SRS) *Mismatch {
	t := d.Tables[e.Name]
	if t == nil || t.GeomCols == nil {
		return mm("table-missing", "table %q is not registered in gpkg_geometry_columns of the target", e.Name)
	}
	// --- schema
	if len(t.Columns) != len(e.Columns) {
		return mm("schema", "table %q has columns %v, source has %v", e.Name, t.Columns, e.Columns)
	}
	for i := range e.Columns {
		a, b := t.Columns[i], e.Columns[i]
		b.AutoInc, b.Default = false, "" // AUTOINCREMENT is not visible in PRAGMA table_info; defaults are not compared
		if a.Name != b.Name || !strings.EqualFold(a.Type, b.Type) || a.NotNull != b.NotNull || a.PK != b.PK {
			return mm("schema", "table %q column %d is %+v, source has %+v", e.Name, i, a, b)
		}
	}
	gc := t.GeomCols
	if gc.Column != e.GeomCol || !strings.EqualFold(gc.TypeName, e.GeomType) || gc.SRSID != e.SRSID || gc.Z != 0 || gc.M != 0 {
		return mm("geometry-columns", "table %q registered as %+v, want column %s type %s srs %d z=0 m=0", e.Name, *gc, e.GeomCol, e.GeomType, e.SRSID)
	}
	if srs != nil {
		got, ok := d.SRS[srs.ID]
		if !ok {
			return mm("srs", "spatial reference system %d of table %q is missing from the target", srs.ID, e.Name)
		}
		// go-spatial seeds every file it opens with its own rows for srs ids -1, 0, 4326 and
		// 3857 and never overwrites an existing row; for those ids only the identity of the
		// reference system (id, organisation, organisation's code) is compared, not the
		// wording of name/definition/description
		preSeeded := srs.ID == -1 || srs.ID == 0 || srs.ID == 4326 || srs.ID == 3857
		if preSeeded {
			if got.ID != srs.ID || !strings.EqualFold(got.Org, srs.Org) || got.OrgID != srs.OrgID {
				return mm("srs", "spatial reference system %d differs: %+v, source has %+v", srs.ID, got, *srs)
			}
		} else if got != *srs {
			return mm("srs", "spatial reference system %d differs: %+v, source has %+v", srs.ID, got, *srs)
		}
	}
	// --- rows
	if len(t.Rows) != len(e.Rows) {
		return mm("row-count", "table %q holds %d rows, %d expected (%s)", e.Name, len(t.Rows), len(e.Rows), rowDiff(t, e))
	}
	pkIdx := -1
	{
		i := 0
		for _, c := range e.Columns {
			if c.Name == e.GeomCol {
				continue
			}
			if c.PK {
				pkIdx = i
			}
			i++
		}
	}
	var ext [4]float64
	haveExt := false
	type idx struct {
		id  int64
		box [4]float64
	}
	var wantIdx []idx
	for i, er := range e.Rows {
		r := t.Rows[i]
		if len(r.Vals) != len(er.Vals) {
			return mm("row-values", "table %q row %d (%s): %d attribute values, want %d", e.Name, i, er.Label, len(r.Vals), len(er.Vals))
		}
		for k := range er.Vals {
			if !SameValue(r.Vals[k], er.Vals[k]) {
				return mm("row-values"+typeFamily(e, k), "table %q row %d (%s) column %d: %s, want %s (whole row %v, want %v)", e.Name, i, er.Label, k, r.Vals[k], er.Vals[k], r.Vals, er.Vals)
			}
		}
		if er.NullGeom {
			if r.Blob != nil {
				return mm("geometry", "table %q row %d (%s): geometry %s, want NULL", e.Name, i, er.Label, r.Blob.Geom)
			}
			continue
		}
		if r.Blob == nil {
			return mm("geometry", "table %q row %d (%s): geometry is NULL", e.Name, i, er.Label)
		}
		if int(r.Blob.SRS) != e.SRSID {
			return mm("geometry-srs", "table %q row %d (%s): blob header carries srs %d, want %d", e.Name, i, er.Label, r.Blob.SRS, e.SRSID)
		}
		g := r.Blob.Geom
		if er.Polys != nil {
			ps, ok := polysOf(g)
			if !ok {
				return mm("geometry", "table %q row %d (%s): %s stored, want polygon(s)", e.Name, i, er.Label, g.T)
			}
			var a, b []string
			for _, p := range ps {
				a = append(a, polyKey(p))
			}
			for _, p := range er.Polys {
				b = append(b, polyKey(p))
			}
			sort.Strings(a)
			sort.Strings(b)
			if strings.Join(a, ";") != strings.Join(b, ";") {
				return mm("geometry", "table %q row %d (%s): stored %s, the library returns %v", e.Name, i, er.Label, g, er.Polys)
			}
		} else if g.Normalised().Key() != er.Geom.Normalised().Key() {
			return mm("geometry", "table %q row %d (%s): stored %s, want %s", e.Name, i, er.Label, g, er.Geom)
		}
		bb, ok := g.BBox()
		// (the blob header's envelope and empty flag are not compared: the property does not
		// speak about them, and go-spatial stores the envelope as minx,miny,maxx,maxy where the
		// GeoPackage specification says minx,maxx,miny,maxy — a quirk of the dependency)
		if ok {
			if !haveExt {
				ext, haveExt = bb, true
			} else {
				ext[0], ext[1] = math.Min(ext[0], bb[0]), math.Min(ext[1], bb[1])
				ext[2], ext[3] = math.Max(ext[2], bb[2]), math.Max(ext[3], bb[3])
			}
			id := r.Rowid
			if pkIdx >= 0 && er.Vals[pkIdx].I != nil {
				id = *er.Vals[pkIdx].I
			}
			wantIdx = append(wantIdx, idx{id, bb})
		}
	}
	// --- spatial index
	if !t.HasRTree {
		return mm("rtree", "table %q has no spatial index table rtree_%s_%s", e.Name, e.Name, e.GeomCol)
	}
	sort.Slice(wantIdx, func(i, j int) bool { return wantIdx[i].id < wantIdx[j].id })
	if len(t.RTree) != len(wantIdx) {
		return mm("rtree", "table %q: spatial index has %d entries, %d rows have a non-empty geometry", e.Name, len(t.RTree), len(wantIdx))
	}
	for i, w := range wantIdx {
		en := t.RTree[i]
		if en.ID != w.id {
			return mm("rtree", "table %q: spatial index entry %d has id %d, want %d", e.Name, i, en.ID, w.id)
		}
		// SQLite's R*Tree keeps 32-bit floats and rounds outwards by multiplying with
		// (1 +/- 2^-23) before converting, so a bound may lie a few float32 ulps outside
		tol := func(v float64) float64 { return math.Abs(v)/float64(1<<21) + 4*ulp32(v) }
		okLo := func(stored, v float64) bool { return stored <= v && v-stored <= tol(v) }
		okHi := func(stored, v float64) bool { return stored >= v && stored-v <= tol(v) }
		if !okLo(en.MinX, w.box[0]) || !okLo(en.MinY, w.box[1]) || !okHi(en.MaxX, w.box[2]) || !okHi(en.MaxY, w.box[3]) {
			return mm("rtree", "table %q: spatial index entry for id %d is [%v %v %v %v], bbox is %v", e.Name, w.id, en.MinX, en.MinY, en.MaxX, en.MaxY, w.box)
		}
	}
	// --- contents
	c := t.Contents
	if c == nil {
		return mm("contents", "table %q has no gpkg_contents row", e.Name)
	}
	if c.DataType != "features" || !c.SRSID.Valid || int(c.SRSID.Int64) != e.SRSID {
		return mm("contents", "table %q: gpkg_contents says data_type=%s srs=%v", e.Name, c.DataType, c.SRSID)
	}
	if haveExt {
		if !c.MinX.Valid || !c.MinY.Valid || !c.MaxX.Valid || !c.MaxY.Valid ||
			c.MinX.Float64 != ext[0] || c.MinY.Float64 != ext[1] || c.MaxX.Float64 != ext[2] || c.MaxY.Float64 != ext[3] {
			return mm("extent", "table %q: recorded extent [%v %v %v %v], bounding box of the written geometries is %v", e.Name,
				nullF(c.MinX.Valid, c.MinX.Float64), nullF(c.MinY.Valid, c.MinY.Float64), nullF(c.MaxX.Valid, c.MaxX.Float64), nullF(c.MaxY.Valid, c.MaxY.Float64), ext)
		}
	} else if c.MinX.Valid || c.MinY.Valid || c.MaxX.Valid || c.MaxY.Valid {
		return mm("extent", "table %q: recorded extent [%v %v %v %v] although no geometry was written", e.Name, c.MinX.Float64, c.MinY.Float64, c.MaxX.Float64, c.MaxY.Float64)
	}
	return nil
}

// typeFamily names the declared type of the k-th non-geometry column when it is one of
// the types go-sqlite3 converts on the way (so that such findings have their own class).
func typeFamily(e *ExpTable, k int) string {
	i := 0
	for _, c := range e.Columns {
		if c.Name == e.GeomCol {
			continue
		}
		if i == k {
			switch strings.ToUpper(strings.Split(c.Type, "(")[0]) {
			case "DATE", "DATETIME", "TIMESTAMP":
				return "/datetime-column"
			case "BOOLEAN":
				return "/boolean-column"
			}
			return ""
		}
		i++
	}
	return ""
}

func nullF(valid bool, v float64) interface{} {
	if !valid {
		return "NULL"
	}
	return v
}

func rowDiff(t *TableDump, e *ExpTable) string {
	var got, want []string
	for _, r := range t.Rows {
		if len(r.Vals) > 0 {
			got = append(got, r.Vals[0].String())
		}
	}
	for _, r := range e.Rows {
		if len(r.Vals) > 0 {
			want = append(want, r.Vals[0].String())
		}
	}
	s := fmt.Sprintf("first values: got %v want %v", got, want)
	if len(s) > 600 {
		s = s[:600] + "..."
	}
	return s
}
