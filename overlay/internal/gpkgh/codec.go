// Package gpkgh is the harness's own view of GeoPackage files: an encoder/decoder for
// GeoPackage geometry blobs and WKB that shares no code with go-spatial, a writer for
// source files (plain SQL), a reader that dumps a written file, and the reference
// model the dumps are compared with. Generated into scratch copies only.
package gpkgh

import (
	"bytes"
	"encoding/binary"
	"errors"
	"fmt"
	"math"

	"github.com/go-spatial/geom"
)

// G is a JSON-friendly 2D geometry.
//
//	Point           P = [p]
//	LineString      P = points
//	MultiPoint      P = points
//	Polygon         L = rings
//	MultiLineString L = lines
//	MultiPolygon    M = polygons
type G struct {
	T string           `json:"t"`
	P [][2]float64     `json:"p,omitempty"`
	L [][][2]float64   `json:"l,omitempty"`
	M [][][][2]float64 `json:"m,omitempty"`
	C []*G             `json:"c,omitempty"` // GeometryCollection members
}

const (
	TPoint           = "POINT"
	TLineString      = "LINESTRING"
	TPolygon         = "POLYGON"
	TMultiPoint      = "MULTIPOINT"
	TMultiLineString = "MULTILINESTRING"
	TMultiPolygon    = "MULTIPOLYGON"
	TCollection      = "GEOMETRYCOLLECTION"
	// TGeometry is a table type only (a column that may hold any geometry type)
	TGeometry = "GEOMETRY"
)

var wkbCode = map[string]uint32{TPoint: 1, TLineString: 2, TPolygon: 3, TMultiPoint: 4, TMultiLineString: 5, TMultiPolygon: 6, TCollection: 7}

// Coords returns every coordinate of the geometry.
func (g *G) Coords() [][2]float64 {
	var out [][2]float64
	for _, p := range g.P {
		if p[0] != p[0] || p[1] != p[1] { // POINT EMPTY is written as NaN NaN
			continue
		}
		out = append(out, p)
	}
	for _, l := range g.L {
		out = append(out, l...)
	}
	for _, m := range g.M {
		for _, l := range m {
			out = append(out, l...)
		}
	}
	for _, c := range g.C {
		out = append(out, c.Coords()...)
	}
	return out
}

func (g *G) Empty() bool { return len(g.Coords()) == 0 }

// BBox: minx, miny, maxx, maxy; ok=false for an empty geometry.
func (g *G) BBox() (b [4]float64, ok bool) {
	cs := g.Coords()
	if len(cs) == 0 {
		return b, false
	}
	b = [4]float64{cs[0][0], cs[0][1], cs[0][0], cs[0][1]}
	for _, c := range cs[1:] {
		b[0], b[1] = math.Min(b[0], c[0]), math.Min(b[1], c[1])
		b[2], b[3] = math.Max(b[2], c[0]), math.Max(b[3], c[1])
	}
	return b, true
}

func putPoints(w *bytes.Buffer, pts [][2]float64) {
	for _, p := range pts {
		binary.Write(w, binary.LittleEndian, p[0])
		binary.Write(w, binary.LittleEndian, p[1])
	}
}

func putHeader(w *bytes.Buffer, code uint32) {
	w.WriteByte(1)
	binary.Write(w, binary.LittleEndian, code)
}

func putCount(w *bytes.Buffer, n int) { binary.Write(w, binary.LittleEndian, uint32(n)) }

// closedRing: WKB linear rings repeat their first point at the end; in memory (here and
// in go-spatial's geom) rings are kept open.
func closedRing(r [][2]float64) [][2]float64 {
	if len(r) > 0 && r[0] != r[len(r)-1] {
		return append(append([][2]float64{}, r...), r[0])
	}
	return r
}

// OpenRing strips a closing point (the inverse convention, used when comparing).
func OpenRing(r [][2]float64) [][2]float64 {
	if len(r) > 1 && r[0] == r[len(r)-1] {
		return r[:len(r)-1]
	}
	return r
}

// Normalised returns the geometry with every polygon ring opened.
func (g *G) Normalised() *G {
	if g == nil {
		return nil
	}
	out := &G{T: g.T, P: g.P}
	switch g.T {
	case TPolygon:
		out.L = make([][][2]float64, len(g.L))
		for i, r := range g.L {
			out.L[i] = OpenRing(r)
		}
	case TMultiPolygon:
		out.M = make([][][][2]float64, len(g.M))
		for i, p := range g.M {
			out.M[i] = make([][][2]float64, len(p))
			for j, r := range p {
				out.M[i][j] = OpenRing(r)
			}
		}
	case TCollection:
		for _, m := range g.C {
			out.C = append(out.C, m.Normalised())
		}
	default:
		out.L, out.M = g.L, g.M
	}
	return out
}

// EncodeWKB writes little-endian 2D WKB.
func EncodeWKB(w *bytes.Buffer, g *G) error {
	code, ok := wkbCode[g.T]
	if !ok {
		return fmt.Errorf("gpkgh: unknown geometry type %q", g.T)
	}
	putHeader(w, code)
	switch g.T {
	case TPoint:
		switch len(g.P) {
		case 0: // POINT EMPTY is written as NaN NaN
			putPoints(w, [][2]float64{{math.NaN(), math.NaN()}})
		case 1:
			putPoints(w, g.P)
		default:
			return errors.New("gpkgh: point needs one coordinate")
		}
	case TLineString:
		putCount(w, len(g.P))
		putPoints(w, g.P)
	case TPolygon:
		putCount(w, len(g.L))
		for _, r := range g.L {
			r = closedRing(r)
			putCount(w, len(r))
			putPoints(w, r)
		}
	case TMultiPoint:
		putCount(w, len(g.P))
		for _, p := range g.P {
			putHeader(w, 1)
			putPoints(w, [][2]float64{p})
		}
	case TMultiLineString:
		putCount(w, len(g.L))
		for _, l := range g.L {
			putHeader(w, 2)
			putCount(w, len(l))
			putPoints(w, l)
		}
	case TCollection:
		putCount(w, len(g.C))
		for _, m := range g.C {
			if err := EncodeWKB(w, m); err != nil {
				return err
			}
		}
	case TMultiPolygon:
		putCount(w, len(g.M))
		for _, p := range g.M {
			putHeader(w, 3)
			putCount(w, len(p))
			for _, r := range p {
				r = closedRing(r)
				putCount(w, len(r))
				putPoints(w, r)
			}
		}
	}
	return nil
}

// EncodeBlob writes a GeoPackage binary: magic, version 0, flags (little endian, XY
// envelope, empty bit), srs id, envelope, WKB.
func EncodeBlob(g *G, srs int32) ([]byte, error) {
	var w bytes.Buffer
	w.WriteString("GP")
	w.WriteByte(0)
	flags := byte(1) | byte(1)<<1
	bb, ok := g.BBox()
	if !ok {
		flags |= 0x10
	}
	w.WriteByte(flags)
	binary.Write(&w, binary.LittleEndian, srs)
	if ok {
		for _, v := range []float64{bb[0], bb[2], bb[1], bb[3]} { // minx, maxx, miny, maxy
			binary.Write(&w, binary.LittleEndian, v)
		}
	} else {
		for i := 0; i < 4; i++ {
			binary.Write(&w, binary.LittleEndian, math.NaN())
		}
	}
	if err := EncodeWKB(&w, g); err != nil {
		return nil, err
	}
	return w.Bytes(), nil
}

type reader struct {
	p   []byte
	err error
}

func (r *reader) take(n int) []byte {
	if r.err != nil {
		return make([]byte, n)
	}
	if len(r.p) < n {
		r.err = errors.New("gpkgh: short input")
		return make([]byte, n)
	}
	b := r.p[:n]
	r.p = r.p[n:]
	return b
}

func (r *reader) header() (binary.ByteOrder, uint32) {
	b := r.take(5)
	var bo binary.ByteOrder = binary.BigEndian
	if b[0] == 1 {
		bo = binary.LittleEndian
	}
	return bo, bo.Uint32(b[1:])
}

func (r *reader) count(bo binary.ByteOrder) int {
	n := int(bo.Uint32(r.take(4)))
	if n > 1<<24 {
		r.err = errors.New("gpkgh: absurd count")
		return 0
	}
	return n
}

func (r *reader) points(bo binary.ByteOrder, n int) [][2]float64 {
	out := make([][2]float64, 0, n)
	for i := 0; i < n && r.err == nil; i++ {
		b := r.take(16)
		out = append(out, [2]float64{math.Float64frombits(bo.Uint64(b[:8])), math.Float64frombits(bo.Uint64(b[8:]))})
	}
	return out
}

// DecodeWKB reads 2D WKB of the six supported types.
func DecodeWKB(p []byte) (*G, error) {
	r := &reader{p: p}
	g := decodeWKB(r)
	if r.err != nil {
		return nil, r.err
	}
	if len(r.p) != 0 {
		return nil, fmt.Errorf("gpkgh: %d trailing bytes after WKB", len(r.p))
	}
	return g, nil
}

func decodeWKB(r *reader) *G {
	bo, code := r.header()
	g := &G{}
	switch code {
	case 1:
		g.T, g.P = TPoint, r.points(bo, 1)
		if len(g.P) == 1 && (g.P[0][0] != g.P[0][0] || g.P[0][1] != g.P[0][1]) {
			g.P = [][2]float64{} // POINT EMPTY (kept NaN-free so that it survives JSON)
		}
	case 2:
		g.T = TLineString
		g.P = r.points(bo, r.count(bo))
	case 3:
		g.T = TPolygon
		n := r.count(bo)
		g.L = make([][][2]float64, 0, n)
		for i := 0; i < n && r.err == nil; i++ {
			g.L = append(g.L, r.points(bo, r.count(bo)))
		}
	case 4:
		g.T = TMultiPoint
		n := r.count(bo)
		for i := 0; i < n && r.err == nil; i++ {
			bo2, c := r.header()
			if c != 1 {
				r.err = errors.New("gpkgh: multipoint member is not a point")
			}
			g.P = append(g.P, r.points(bo2, 1)...)
		}
	case 5:
		g.T = TMultiLineString
		n := r.count(bo)
		g.L = make([][][2]float64, 0, n)
		for i := 0; i < n && r.err == nil; i++ {
			bo2, c := r.header()
			if c != 2 {
				r.err = errors.New("gpkgh: multilinestring member is not a linestring")
			}
			g.L = append(g.L, r.points(bo2, r.count(bo2)))
		}
	case 6:
		g.T = TMultiPolygon
		n := r.count(bo)
		g.M = make([][][][2]float64, 0, n)
		for i := 0; i < n && r.err == nil; i++ {
			bo2, c := r.header()
			if c != 3 {
				r.err = errors.New("gpkgh: multipolygon member is not a polygon")
			}
			nr := r.count(bo2)
			poly := make([][][2]float64, 0, nr)
			for j := 0; j < nr && r.err == nil; j++ {
				poly = append(poly, r.points(bo2, r.count(bo2)))
			}
			g.M = append(g.M, poly)
		}
	case 7:
		g.T = TCollection
		n := r.count(bo)
		for i := 0; i < n && r.err == nil; i++ {
			g.C = append(g.C, decodeWKB(r))
		}
	default:
		if r.err == nil {
			r.err = fmt.Errorf("gpkgh: unsupported WKB type %d", code)
		}
	}
	return g
}

// Blob is a decoded GeoPackage binary.
type Blob struct {
	SRS       int32
	EmptyFlag bool
	Envelope  []float64 // minx, maxx, miny, maxy (as stored), nil if none
	Geom      *G
}

func DecodeBlob(b []byte) (*Blob, error) {
	if len(b) < 8 || b[0] != 'G' || b[1] != 'P' {
		return nil, errors.New("gpkgh: not a GeoPackage binary")
	}
	if b[2] != 0 {
		return nil, fmt.Errorf("gpkgh: version %d", b[2])
	}
	flags := b[3]
	var bo binary.ByteOrder = binary.BigEndian
	if flags&1 == 1 {
		bo = binary.LittleEndian
	}
	out := &Blob{SRS: int32(bo.Uint32(b[4:8])), EmptyFlag: flags&0x10 != 0}
	env := int((flags >> 1) & 7)
	n := map[int]int{0: 0, 1: 4, 2: 6, 3: 6, 4: 8}[env]
	if env > 4 || len(b) < 8+8*n {
		return nil, errors.New("gpkgh: bad envelope")
	}
	for i := 0; i < n; i++ {
		out.Envelope = append(out.Envelope, math.Float64frombits(bo.Uint64(b[8+8*i:])))
	}
	g, err := DecodeWKB(b[8+8*n:])
	if err != nil {
		return nil, err
	}
	out.Geom = g
	return out, nil
}

// ToGeom converts to the go-spatial value types the texel pipeline works with.
func (g *G) ToGeom() geom.Geometry {
	switch g.T {
	case TPoint:
		if len(g.P) == 0 {
			return geom.Point{math.NaN(), math.NaN()}
		}
		return geom.Point(g.P[0])
	case TLineString:
		return geom.LineString(clonePts(g.P))
	case TMultiPoint:
		return geom.MultiPoint(clonePts(g.P))
	case TPolygon:
		return geom.Polygon(cloneLines(g.L))
	case TMultiLineString:
		return geom.MultiLineString(cloneLines(g.L))
	case TMultiPolygon:
		mp := make(geom.MultiPolygon, len(g.M))
		for i, p := range g.M {
			mp[i] = cloneLines(p)
		}
		return mp
	case TCollection:
		col := make(geom.Collection, len(g.C))
		for i, m := range g.C {
			col[i] = m.ToGeom()
		}
		return col
	}
	return nil
}

func clonePts(p [][2]float64) [][2]float64 { return append([][2]float64{}, p...) }
func cloneLines(l [][][2]float64) [][][2]float64 {
	out := make([][][2]float64, len(l))
	for i := range l {
		out[i] = clonePts(l[i])
	}
	return out
}

// FromGeom converts from go-spatial geometry values.
func FromGeom(v geom.Geometry) (*G, error) {
	switch x := v.(type) {
	case geom.Point:
		if x[0] != x[0] || x[1] != x[1] {
			return &G{T: TPoint, P: [][2]float64{}}, nil
		}
		return &G{T: TPoint, P: [][2]float64{x}}, nil
	case geom.LineString:
		return &G{T: TLineString, P: clonePts(x)}, nil
	case geom.MultiPoint:
		return &G{T: TMultiPoint, P: clonePts(x)}, nil
	case geom.Polygon:
		return &G{T: TPolygon, L: cloneLines(x)}, nil
	case geom.MultiLineString:
		return &G{T: TMultiLineString, L: cloneLines(x)}, nil
	case geom.MultiPolygon:
		g := &G{T: TMultiPolygon}
		for _, p := range x {
			g.M = append(g.M, cloneLines(p))
		}
		return g, nil
	case geom.Collection:
		g := &G{T: TCollection}
		for _, m := range x {
			mg, err := FromGeom(m)
			if err != nil {
				return nil, err
			}
			g.C = append(g.C, mg)
		}
		return g, nil
	}
	return nil, fmt.Errorf("gpkgh: unsupported geometry %T", v)
}

// Key renders a geometry bit-exactly (for equality and messages).
func (g *G) Key() string {
	if g == nil {
		return "NULL"
	}
	var b bytes.Buffer
	b.WriteString(g.T)
	pts := func(p [][2]float64) {
		b.WriteByte('(')
		for _, c := range p {
			fmt.Fprintf(&b, "%x %x,", math.Float64bits(c[0]), math.Float64bits(c[1]))
		}
		b.WriteByte(')')
	}
	switch g.T {
	case TPoint, TLineString, TMultiPoint:
		pts(g.P)
	case TPolygon, TMultiLineString:
		b.WriteByte('{')
		for _, l := range g.L {
			pts(l)
		}
		b.WriteByte('}')
	case TMultiPolygon:
		for _, m := range g.M {
			b.WriteByte('[')
			for _, l := range m {
				pts(l)
			}
			b.WriteByte(']')
		}
	case TCollection:
		for _, m := range g.C {
			b.WriteByte('<')
			b.WriteString(m.Key())
			b.WriteByte('>')
		}
	}
	return b.String()
}

func (g *G) String() string {
	if g == nil {
		return "NULL"
	}
	switch g.T {
	case TCollection:
		return fmt.Sprintf("%s%v", g.T, g.C)
	case TMultiPolygon:
		return fmt.Sprintf("%s%v", g.T, g.M)
	case TPolygon, TMultiLineString:
		return fmt.Sprintf("%s%v", g.T, g.L)
	}
	return fmt.Sprintf("%s%v", g.T, g.P)
}
