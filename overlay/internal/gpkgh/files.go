package gpkgh

import (
	"database/sql"
	"fmt"
	"math"
	"sort"
	"strings"

	_ "github.com/mattn/go-sqlite3" // registers the plain "sqlite3" driver
)

// Val is a JSON-friendly SQLite value: exactly one of I, F, S set, or none (NULL).
type Val struct {
	I *int64   `json:"i,omitempty"`
	F *float64 `json:"f,omitempty"`
	S *string  `json:"s,omitempty"`
	B *string  `json:"b,omitempty"` // BLOB value (bytes as a string)
}

func IntVal(v int64) Val     { return Val{I: &v} }
func FloatVal(v float64) Val { return Val{F: &v} }
func TextVal(v string) Val   { return Val{S: &v} }
func BlobVal(v string) Val   { return Val{B: &v} }

// SameValue: equal type and value; a BLOB attribute may come back as TEXT with the same
// bytes (the tool's reader hands byte values on as strings; BLOB attributes are outside
// the property's quantifier, only their bytes are compared).
func SameValue(got, want Val) bool {
	if got.String() == want.String() {
		return true
	}
	if want.B != nil && got.S != nil && *got.S == *want.B {
		return true
	}
	return false
}

func (v Val) Go() interface{} {
	switch {
	case v.I != nil:
		return *v.I
	case v.F != nil:
		return *v.F
	case v.S != nil:
		return *v.S
	case v.B != nil:
		return []byte(*v.B)
	}
	return nil
}

func (v Val) String() string {
	switch {
	case v.I != nil:
		return fmt.Sprintf("int:%d", *v.I)
	case v.F != nil:
		return fmt.Sprintf("real:%x", math.Float64bits(*v.F))
	case v.S != nil:
		return fmt.Sprintf("text:%q", *v.S)
	case v.B != nil:
		return fmt.Sprintf("blob:%q", *v.B)
	}
	return "null"
}

type Column struct {
	Name    string `json:"name"`
	Type    string `json:"type"`
	NotNull bool   `json:"notnull,omitempty"`
	PK      bool   `json:"pk,omitempty"`
	AutoInc bool   `json:"autoincrement,omitempty"` // source only: INTEGER PRIMARY KEY AUTOINCREMENT
	Default string `json:"default,omitempty"`       // source only: DEFAULT clause (SQL literal)
}

type Row struct {
	// Vals: one value per non-geometry column, in table order (the primary key included).
	Vals []Val `json:"vals"`
	Geom *G    `json:"geom"` // nil = SQL NULL
}

type SRS struct {
	Name        string `json:"name"`
	ID          int    `json:"id"`
	Org         string `json:"org"`
	OrgID       int    `json:"org_id"`
	Definition  string `json:"definition"`
	Description string `json:"description"`
}

type Table struct {
	Name     string   `json:"name"`
	Columns  []Column `json:"columns"` // table order; the geometry column among them
	GeomCol  string   `json:"geom_col"`
	GeomType string   `json:"geom_type"` // as recorded in gpkg_geometry_columns
	SRSID    int      `json:"srs_id"`
	Spatial  bool     `json:"spatial"` // false: an attributes table, not in gpkg_geometry_columns
	Rows     []Row    `json:"rows"`
}

func (t *Table) PKIndex() int {
	i := 0
	for _, c := range t.Columns {
		if c.Name == t.GeomCol && t.Spatial {
			continue
		}
		if c.PK {
			return i
		}
		i++
	}
	return -1
}

type Source struct {
	SRS    []SRS   `json:"srs"`
	Tables []Table `json:"tables"`
	// MetaSeed != 0: the gpkg_geometry_columns rows are inserted in an order (derived from
	// it) that differs from the order in which the tables and gpkg_contents rows are created
	MetaSeed uint64 `json:"meta_seed,omitempty"`
}

const metaSQL = `
CREATE TABLE gpkg_spatial_ref_sys (srs_name TEXT NOT NULL, srs_id INTEGER NOT NULL PRIMARY KEY, organization TEXT NOT NULL,
  organization_coordsys_id INTEGER NOT NULL, definition TEXT NOT NULL, description TEXT);
CREATE TABLE gpkg_contents (table_name TEXT NOT NULL PRIMARY KEY, data_type TEXT NOT NULL, identifier TEXT UNIQUE, description TEXT DEFAULT '',
  last_change DATETIME NOT NULL DEFAULT (strftime('%Y-%m-%dT%H:%M:%fZ','now')), min_x DOUBLE, min_y DOUBLE, max_x DOUBLE, max_y DOUBLE, srs_id INTEGER,
  CONSTRAINT fk_gc_r_srs_id FOREIGN KEY (srs_id) REFERENCES gpkg_spatial_ref_sys(srs_id));
CREATE TABLE gpkg_geometry_columns (table_name TEXT NOT NULL, column_name TEXT NOT NULL, geometry_type_name TEXT NOT NULL, srs_id INTEGER NOT NULL,
  z TINYINT NOT NULL, m TINYINT NOT NULL, CONSTRAINT pk_geom_cols PRIMARY KEY (table_name, column_name), CONSTRAINT uk_gc_table_name UNIQUE (table_name),
  CONSTRAINT fk_gc_tn FOREIGN KEY (table_name) REFERENCES gpkg_contents(table_name), CONSTRAINT fk_gc_srs FOREIGN KEY (srs_id) REFERENCES gpkg_spatial_ref_sys (srs_id));
PRAGMA application_id = 1196444487;
PRAGMA user_version = 10200;
`

func createSQL(t *Table) string {
	var cols []string
	for _, c := range t.Columns {
		s := qi(c.Name) + ` ` + c.Type
		if c.PK {
			s += " PRIMARY KEY"
			if c.AutoInc {
				s += " AUTOINCREMENT"
			}
		}
		if c.NotNull {
			s += " NOT NULL"
		}
		if c.Default != "" {
			s += " DEFAULT " + c.Default
		}
		cols = append(cols, s)
	}
	return `CREATE TABLE "` + t.Name + `" (` + strings.Join(cols, ", ") + `)`
}

// WriteSource creates a source GeoPackage with plain SQL and the harness's own encoder.
func WriteSource(path string, src *Source) error {
	db, err := sql.Open("sqlite3", path)
	if err != nil {
		return err
	}
	defer db.Close()
	db.SetMaxOpenConns(1)
	if _, err := db.Exec(metaSQL); err != nil {
		return fmt.Errorf("meta: %w", err)
	}
	for _, s := range src.SRS {
		if _, err := db.Exec(`INSERT INTO gpkg_spatial_ref_sys VALUES (?,?,?,?,?,?)`, s.Name, s.ID, s.Org, s.OrgID, s.Definition, s.Description); err != nil {
			return fmt.Errorf("srs: %w", err)
		}
	}
	for ti := range src.Tables {
		t := &src.Tables[ti]
		if _, err := db.Exec(createSQL(t)); err != nil {
			return fmt.Errorf("create %s: %w", t.Name, err)
		}
		if t.Spatial {
			if _, err := db.Exec(`INSERT INTO gpkg_contents(table_name, data_type, identifier, srs_id) VALUES (?,?,?,?)`, t.Name, "features", t.Name, t.SRSID); err != nil {
				return fmt.Errorf("contents: %w", err)
			}
		} else {
			if _, err := db.Exec(`INSERT INTO gpkg_contents(table_name, data_type, identifier) VALUES (?,?,?)`, t.Name, "attributes", t.Name); err != nil {
				return fmt.Errorf("contents: %w", err)
			}
		}
		var names, marks []string
		for _, c := range t.Columns {
			names = append(names, qi(c.Name))
			marks = append(marks, "?")
		}
		tx, err := db.Begin()
		if err != nil {
			return err
		}
		stmt, err := tx.Prepare(`INSERT INTO "` + t.Name + `" (` + strings.Join(names, ",") + `) VALUES (` + strings.Join(marks, ",") + `)`)
		if err != nil {
			return err
		}
		for _, r := range t.Rows {
			var args []interface{}
			vi := 0
			for _, c := range t.Columns {
				if t.Spatial && c.Name == t.GeomCol {
					if r.Geom == nil {
						args = append(args, nil)
					} else {
						b, err := EncodeBlob(r.Geom, int32(t.SRSID))
						if err != nil {
							return err
						}
						args = append(args, b)
					}
					continue
				}
				args = append(args, r.Vals[vi].Go())
				vi++
			}
			if _, err := stmt.Exec(args...); err != nil {
				return fmt.Errorf("insert into %s: %w", t.Name, err)
			}
		}
		stmt.Close()
		if err := tx.Commit(); err != nil {
			return err
		}
	}
	// geometry columns last, possibly in another order than the tables were created
	var spatial []int
	for ti := range src.Tables {
		if src.Tables[ti].Spatial {
			spatial = append(spatial, ti)
		}
	}
	if src.MetaSeed != 0 {
		x := src.MetaSeed
		for i := len(spatial) - 1; i > 0; i-- {
			x = x*6364136223846793005 + 1442695040888963407
			j := int((x >> 33) % uint64(i+1))
			spatial[i], spatial[j] = spatial[j], spatial[i]
		}
	}
	for _, ti := range spatial {
		t := &src.Tables[ti]
		if _, err := db.Exec(`INSERT INTO gpkg_geometry_columns VALUES (?,?,?,?,0,0)`, t.Name, t.GeomCol, t.GeomType, t.SRSID); err != nil {
			return fmt.Errorf("geometry_columns: %w", err)
		}
	}
	return nil
}

// ------------------------------------------------------------------------------------
// reading a written file back

type RTreeEntry struct {
	ID                     int64
	MinX, MaxX, MinY, MaxY float64
}

type TableDump struct {
	Name      string
	Columns   []Column
	Rows      []DumpRow
	HasRTree  bool
	RTree     []RTreeEntry
	Contents  *ContentsRow
	GeomCols  *GeomColsRow
	RowidList []int64
}

type DumpRow struct {
	Rowid int64
	Vals  []Val // non-geometry columns in table order
	Blob  *Blob // nil = NULL geometry
	Raw   []byte
}

type ContentsRow struct {
	DataType               string
	Identifier             sql.NullString
	MinX, MinY, MaxX, MaxY sql.NullFloat64
	SRSID                  sql.NullInt64
}

type GeomColsRow struct {
	Column, TypeName string
	SRSID, Z, M      int
}

type FileDump struct {
	Tables     map[string]*TableDump // feature tables (those in gpkg_geometry_columns)
	UserTables []string              // every table that is not gpkg_*, rtree_*, sqlite_*
	SRS        map[int]SRS
}

func scanVal(typ string, v interface{}) (Val, error) {
	switch typ {
	case "null":
		return Val{}, nil
	case "integer":
		switch x := v.(type) {
		case int64:
			return IntVal(x), nil
		case bool:
			if x {
				return IntVal(1), nil
			}
			return IntVal(0), nil
		}
	case "real":
		if x, ok := v.(float64); ok {
			return FloatVal(x), nil
		}
	case "text":
		switch x := v.(type) {
		case string:
			return TextVal(x), nil
		case []byte:
			return TextVal(string(x)), nil
		}
	case "blob":
		if x, ok := v.([]byte); ok {
			return BlobVal(string(x)), nil
		}
	}
	return Val{}, fmt.Errorf("gpkgh: value %T with typeof %s", v, typ)
}

// ReadFile dumps a GeoPackage through the plain SQLite driver (read only).
func ReadFile(path string) (*FileDump, error) {
	db, err := sql.Open("sqlite3", "file:"+path+"?mode=ro")
	if err != nil {
		return nil, err
	}
	defer db.Close()
	db.SetMaxOpenConns(1)
	d := &FileDump{Tables: map[string]*TableDump{}, SRS: map[int]SRS{}}
	rows, err := db.Query(`SELECT name FROM sqlite_master WHERE type='table' ORDER BY name`)
	if err != nil {
		return nil, fmt.Errorf("sqlite_master: %w", err)
	}
	all := map[string]bool{}
	for rows.Next() {
		var n string
		if err := rows.Scan(&n); err != nil {
			return nil, err
		}
		all[n] = true
		if !strings.HasPrefix(n, "gpkg_") && !strings.HasPrefix(n, "rtree_") && !strings.HasPrefix(n, "sqlite_") {
			d.UserTables = append(d.UserTables, n)
		}
	}
	rows.Close()
	if all["gpkg_spatial_ref_sys"] {
		rows, err = db.Query(`SELECT srs_name, srs_id, organization, organization_coordsys_id, definition, description FROM gpkg_spatial_ref_sys`)
		if err != nil {
			return nil, err
		}
		for rows.Next() {
			var s SRS
			var desc sql.NullString
			if err := rows.Scan(&s.Name, &s.ID, &s.Org, &s.OrgID, &s.Definition, &desc); err != nil {
				return nil, err
			}
			s.Description = desc.String
			d.SRS[s.ID] = s
		}
		rows.Close()
	}
	if !all["gpkg_geometry_columns"] {
		return d, nil
	}
	rows, err = db.Query(`SELECT table_name, column_name, geometry_type_name, srs_id, z, m FROM gpkg_geometry_columns ORDER BY table_name`)
	if err != nil {
		return nil, err
	}
	for rows.Next() {
		var name string
		var g GeomColsRow
		if err := rows.Scan(&name, &g.Column, &g.TypeName, &g.SRSID, &g.Z, &g.M); err != nil {
			return nil, err
		}
		gc := g
		d.Tables[name] = &TableDump{Name: name, GeomCols: &gc}
	}
	rows.Close()
	for name, t := range d.Tables {
		if !all[name] {
			continue
		}
		rows, err = db.Query(`PRAGMA table_info("` + name + `")`)
		if err != nil {
			return nil, err
		}
		for rows.Next() {
			var cid, notnull, pk int
			var cname, ctype string
			var dflt interface{}
			if err := rows.Scan(&cid, &cname, &ctype, &notnull, &dflt, &pk); err != nil {
				return nil, err
			}
			t.Columns = append(t.Columns, Column{Name: cname, Type: ctype, NotNull: notnull == 1, PK: pk > 0})
		}
		rows.Close()
		var c ContentsRow
		err = db.QueryRow(`SELECT data_type, identifier, min_x, min_y, max_x, max_y, srs_id FROM gpkg_contents WHERE table_name = ?`, name).
			Scan(&c.DataType, &c.Identifier, &c.MinX, &c.MinY, &c.MaxX, &c.MaxY, &c.SRSID)
		if err == nil {
			cc := c
			t.Contents = &cc
		} else if err != sql.ErrNoRows {
			return nil, err
		}
		var sel []string
		for _, col := range t.Columns {
			if col.Name == t.GeomCols.Column {
				continue
			}
			// unary plus: an expression has no declared type, so go-sqlite3 hands the stored
			// value on as it is (no DATE/DATETIME/BOOLEAN conversion)
			sel = append(sel, `typeof(`+qi(col.Name)+`)`, `+`+qi(col.Name))
		}
		q := `SELECT rowid, ` + qi(t.GeomCols.Column)
		if len(sel) > 0 {
			q += ", " + strings.Join(sel, ", ")
		}
		q += ` FROM "` + name + `" ORDER BY rowid`
		rows, err = db.Query(q)
		if err != nil {
			return nil, fmt.Errorf("%s: %w", q, err)
		}
		for rows.Next() {
			n := 2 + len(sel)
			vals := make([]interface{}, n)
			ptrs := make([]interface{}, n)
			for i := range vals {
				ptrs[i] = &vals[i]
			}
			if err := rows.Scan(ptrs...); err != nil {
				return nil, err
			}
			var r DumpRow
			r.Rowid, _ = vals[0].(int64)
			switch g := vals[1].(type) {
			case nil:
			case []byte:
				r.Raw = append([]byte(nil), g...)
				b, err := DecodeBlob(r.Raw)
				if err != nil {
					return nil, fmt.Errorf("table %s rowid %d: %w", name, r.Rowid, err)
				}
				r.Blob = b
			default:
				return nil, fmt.Errorf("table %s rowid %d: geometry column holds %T", name, r.Rowid, g)
			}
			for i := 2; i < n; i += 2 {
				typ, _ := vals[i].(string)
				if b, ok := vals[i].([]byte); ok {
					typ = string(b)
				}
				v, err := scanVal(typ, vals[i+1])
				if err != nil {
					return nil, fmt.Errorf("table %s rowid %d: %w", name, r.Rowid, err)
				}
				r.Vals = append(r.Vals, v)
			}
			t.Rows = append(t.Rows, r)
		}
		if err := rows.Err(); err != nil {
			return nil, err
		}
		rows.Close()
		rt := "rtree_" + name + "_" + t.GeomCols.Column
		if all[rt] {
			t.HasRTree = true
			rows, err = db.Query(`SELECT id, minx, maxx, miny, maxy FROM "` + rt + `" ORDER BY id`)
			if err != nil {
				return nil, err
			}
			for rows.Next() {
				var e RTreeEntry
				if err := rows.Scan(&e.ID, &e.MinX, &e.MaxX, &e.MinY, &e.MaxY); err != nil {
					return nil, err
				}
				t.RTree = append(t.RTree, e)
			}
			rows.Close()
		}
	}
	sort.Strings(d.UserTables)
	return d, nil
}

// MarkerTable is the table AddMarker adds to a pre-existing file.
const MarkerTable = "verif_marker_of_the_pre_existing_file"

// AddMarker adds a table to an existing SQLite file: if that table is still there after a
// run that had to replace the file, content of the old file has survived.
func AddMarker(path string) error {
	db, err := sql.Open("sqlite3", path)
	if err != nil {
		return err
	}
	defer db.Close()
	if _, err := db.Exec(`CREATE TABLE IF NOT EXISTS "` + MarkerTable + `" (x TEXT)`); err != nil {
		return err
	}
	_, err = db.Exec(`INSERT INTO "` + MarkerTable + `" VALUES ('written before the run')`)
	return err
}

// qi quotes an SQL identifier.
func qi(name string) string { return `"` + strings.ReplaceAll(name, `"`, `""`) + `"` }

