package simrt

import (
	"os"
	"reflect"
	"sort"
	"strconv"
	"strings"
	"sync"
)

// MapPolicy selects the order in which the map seam hands out keys. Every order is a
// legal Go execution: the language leaves map iteration order unspecified.
type MapPolicy int

const (
	MapNative         MapPolicy = iota // Go's own (randomised) order; the seam is idle
	MapSorted                          // canonical ascending order
	MapReverse                         // canonical descending order
	MapShufflePerCall                  // fresh seeded permutation at every range statement executed
	MapShufflePerSite                  // one seeded permutation per (site, key count), fixed for the run
	MapRotate                          // sorted order rotated by a seeded offset per call
)

var MapPolicyNames = []string{"native", "sorted", "reverse", "shuffle-per-call", "shuffle-per-site", "rotate"}

func (p MapPolicy) String() string {
	if int(p) < len(MapPolicyNames) {
		return MapPolicyNames[p]
	}
	return "?"
}

func ParseMapPolicy(s string) (MapPolicy, bool) {
	for i, n := range MapPolicyNames {
		if n == s {
			return MapPolicy(i), true
		}
	}
	return MapNative, false
}

// MapStats counts what the seam actually did (measured, per run).
type MapStats struct {
	Calls        uint64            // range statements / Keys calls that went through the seam
	MultiKey     uint64            // ... on maps with >= 2 keys
	Effective    uint64            // ... where the order handed out differs from the canonical sorted order
	PerSite      map[string]uint64 // effective permutations per site
	Unorderable  uint64            // key type without a canonical order (pointer, chan, func-containing): native order used
	UnorderSites map[string]uint64
}

var mapSeam struct {
	mu       sync.Mutex
	policy   MapPolicy
	seed     uint64
	counters map[string]uint64
	stats    MapStats
	// digest of all (site, permutation) decisions, part of the run digest
	digest uint64
}

// SetMapOrder installs a policy and resets counters. Call it between runs only.
func SetMapOrder(p MapPolicy, seed uint64) {
	mapSeam.mu.Lock()
	defer mapSeam.mu.Unlock()
	mapSeam.policy = p
	mapSeam.seed = seed
	mapSeam.counters = make(map[string]uint64)
	mapSeam.stats = MapStats{PerSite: make(map[string]uint64), UnorderSites: make(map[string]uint64)}
	mapSeam.digest = 0
}

// TakeMapStats returns the counters collected since the last SetMapOrder.
func TakeMapStats() (MapStats, uint64) {
	mapSeam.mu.Lock()
	defer mapSeam.mu.Unlock()
	st := mapSeam.stats
	st.PerSite = make(map[string]uint64, len(mapSeam.stats.PerSite))
	for k, v := range mapSeam.stats.PerSite {
		st.PerSite[k] = v
	}
	st.UnorderSites = make(map[string]uint64, len(mapSeam.stats.UnorderSites))
	for k, v := range mapSeam.stats.UnorderSites {
		st.UnorderSites[k] = v
	}
	return st, mapSeam.digest
}

// VERIF_MAPORDER=<policy>[:<seed>] installs a process-wide policy at start-up; used to
// run the repository's own test suite inside the instrumented copy under several orders.
func init() {
	SetMapOrder(MapNative, 0)
	if v := os.Getenv("VERIF_MAPORDER"); v != "" {
		name, seedStr, _ := strings.Cut(v, ":")
		p, ok := ParseMapPolicy(name)
		if !ok {
			panic("simrt: bad VERIF_MAPORDER " + v)
		}
		seed, _ := strconv.ParseUint(seedStr, 10, 64)
		SetMapOrder(p, seed)
	}
}

// orderKeys reorders keys (collected in Go's native order) according to the policy.
func orderKeys[K comparable](site string, keys []K) []K {
	mapSeam.mu.Lock()
	pol := mapSeam.policy
	if pol == MapNative {
		mapSeam.mu.Unlock()
		return keys
	}
	mapSeam.stats.Calls++
	n := len(keys)
	if n < 2 {
		mapSeam.mu.Unlock()
		return keys
	}
	mapSeam.stats.MultiKey++
	seed := mapSeam.seed
	ctrKey := site
	if a := currentActorName(); a != "" {
		ctrKey = site + "@" + a
	}
	ctr := mapSeam.counters[ctrKey]
	mapSeam.counters[ctrKey] = ctr + 1
	mapSeam.mu.Unlock()

	if !sortKeys(keys) {
		mapSeam.mu.Lock()
		mapSeam.stats.Unorderable++
		mapSeam.stats.UnorderSites[site]++
		mapSeam.mu.Unlock()
		return keys
	}
	var perm []int
	switch pol {
	case MapSorted:
		return keys
	case MapReverse:
		perm = make([]int, n)
		for i := range perm {
			perm[i] = n - 1 - i
		}
	case MapShufflePerCall:
		r := RNG{s: mix64(seed) ^ HashString(ctrKey) ^ mix64(ctr+1)}
		perm = r.Perm(n)
	case MapShufflePerSite:
		r := RNG{s: mix64(seed) ^ HashString(site) ^ mix64(uint64(n)<<32)}
		perm = r.Perm(n)
	case MapRotate:
		r := RNG{s: mix64(seed) ^ HashString(ctrKey) ^ mix64(ctr+1)}
		off := 1 + r.Intn(n-1)
		perm = make([]int, n)
		for i := range perm {
			perm[i] = (i + off) % n
		}
	default:
		return keys
	}
	out := make([]K, n)
	identity := true
	h := HashString(ctrKey) ^ mix64(ctr)
	for i, p := range perm {
		out[i] = keys[p]
		if p != i {
			identity = false
		}
		h = mix64(h ^ uint64(p+1))
	}
	mapSeam.mu.Lock()
	if !identity {
		mapSeam.stats.Effective++
		mapSeam.stats.PerSite[site]++
	}
	mapSeam.digest ^= h // xor: independent of the real-time order in which goroutines reach the seam
	mapSeam.mu.Unlock()
	return out
}

// sortKeys sorts keys canonically; false if the key type has no canonical order.
func sortKeys[K comparable](keys []K) bool {
	switch ks := any(keys).(type) {
	case []int:
		sort.Ints(ks)
		return true
	case []uint:
		sort.Slice(ks, func(i, j int) bool { return ks[i] < ks[j] })
		return true
	case []string:
		sort.Strings(ks)
		return true
	case []uint64:
		sort.Slice(ks, func(i, j int) bool { return ks[i] < ks[j] })
		return true
	case []int64:
		sort.Slice(ks, func(i, j int) bool { return ks[i] < ks[j] })
		return true
	}
	if len(keys) == 0 {
		return true
	}
	if !orderable(reflect.TypeOf(keys[0])) {
		return false
	}
	ok := true
	sort.SliceStable(keys, func(i, j int) bool {
		c, good := cmpValue(reflect.ValueOf(keys[i]), reflect.ValueOf(keys[j]))
		if !good {
			ok = false
		}
		return c < 0
	})
	return ok
}

func orderable(t reflect.Type) bool {
	if t == nil {
		return false
	}
	switch t.Kind() {
	case reflect.Bool, reflect.Int, reflect.Int8, reflect.Int16, reflect.Int32, reflect.Int64,
		reflect.Uint, reflect.Uint8, reflect.Uint16, reflect.Uint32, reflect.Uint64, reflect.Uintptr,
		reflect.Float32, reflect.Float64, reflect.String, reflect.Interface:
		return true
	case reflect.Array:
		return orderable(t.Elem())
	case reflect.Struct:
		for i := 0; i < t.NumField(); i++ {
			if !orderable(t.Field(i).Type) {
				return false
			}
		}
		return true
	}
	return false
}

func cmpValue(a, b reflect.Value) (int, bool) {
	switch a.Kind() {
	case reflect.Bool:
		x, y := a.Bool(), b.Bool()
		switch {
		case x == y:
			return 0, true
		case !x:
			return -1, true
		}
		return 1, true
	case reflect.Int, reflect.Int8, reflect.Int16, reflect.Int32, reflect.Int64:
		x, y := a.Int(), b.Int()
		switch {
		case x < y:
			return -1, true
		case x > y:
			return 1, true
		}
		return 0, true
	case reflect.Uint, reflect.Uint8, reflect.Uint16, reflect.Uint32, reflect.Uint64, reflect.Uintptr:
		x, y := a.Uint(), b.Uint()
		switch {
		case x < y:
			return -1, true
		case x > y:
			return 1, true
		}
		return 0, true
	case reflect.Float32, reflect.Float64:
		x, y := a.Float(), b.Float()
		switch {
		case x < y:
			return -1, true
		case x > y:
			return 1, true
		case x == y:
			return 0, true
		}
		return 0, false // NaN
	case reflect.String:
		x, y := a.String(), b.String()
		switch {
		case x < y:
			return -1, true
		case x > y:
			return 1, true
		}
		return 0, true
	case reflect.Array:
		for i := 0; i < a.Len(); i++ {
			if c, ok := cmpValue(a.Index(i), b.Index(i)); c != 0 || !ok {
				return c, ok
			}
		}
		return 0, true
	case reflect.Struct:
		for i := 0; i < a.NumField(); i++ {
			if c, ok := cmpValue(a.Field(i), b.Field(i)); c != 0 || !ok {
				return c, ok
			}
		}
		return 0, true
	case reflect.Interface:
		if a.IsNil() || b.IsNil() {
			switch {
			case a.IsNil() && b.IsNil():
				return 0, true
			case a.IsNil():
				return -1, true
			}
			return 1, true
		}
		ea, eb := a.Elem(), b.Elem()
		if ea.Type() != eb.Type() {
			x, y := ea.Type().String(), eb.Type().String()
			if x < y {
				return -1, true
			} else if x > y {
				return 1, true
			}
			return 0, false
		}
		if !orderable(ea.Type()) {
			return 0, false
		}
		return cmpValue(ea, eb)
	}
	return 0, false
}

// Iter is what a rewritten `for k, v := range m` loop iterates with.
type Iter[K comparable, V any] struct {
	m    map[K]V
	keys []K
	i    int
}

func newIter[M ~map[K]V, K comparable, V any](site string, m M) *Iter[K, V] {
	keys := make([]K, 0, len(m))
	for k := range m {
		keys = append(keys, k)
	}
	return &Iter[K, V]{m: m, keys: orderKeys(site, keys)}
}

// Range3 replaces `for k, v := range m`: it evaluates m once and declares k and v
// with the loop's scope (go1.21 per-loop semantics are kept by the three-clause form).
func Range3[M ~map[K]V, K comparable, V any](site string, m M) (*Iter[K, V], K, V) {
	var k K
	var v V
	return newIter(site, m), k, v
}

// Range2 replaces `for k := range m`.
func Range2[M ~map[K]V, K comparable, V any](site string, m M) (*Iter[K, V], K) {
	var k K
	return newIter(site, m), k
}

// Range1 replaces `for range m` and the assignment forms `for k, v = range m`.
func Range1[M ~map[K]V, K comparable, V any](site string, m M) *Iter[K, V] {
	return newIter(site, m)
}

// Next advances to the next key that is still present in the map (an entry removed
// during iteration is not produced; an entry added during iteration is not produced
// either, which the language permits). k and v may be nil.
func (it *Iter[K, V]) Next(k *K, v *V) bool {
	for it.i < len(it.keys) {
		key := it.keys[it.i]
		it.i++
		val, ok := it.m[key]
		if !ok {
			continue
		}
		if k != nil {
			*k = key
		}
		if v != nil {
			*v = val
		}
		return true
	}
	return false
}

// Keys replaces golang.org/x/exp/maps.Keys.
func Keys[M ~map[K]V, K comparable, V any](site string, m M) []K {
	keys := make([]K, 0, len(m))
	for k := range m {
		keys = append(keys, k)
	}
	return orderKeys(site, keys)
}

// Values replaces golang.org/x/exp/maps.Values.
func Values[M ~map[K]V, K comparable, V any](site string, m M) []V {
	keys := Keys(site, m)
	vals := make([]V, 0, len(keys))
	for _, k := range keys {
		vals = append(vals, m[k])
	}
	return vals
}
