package simrt

import (
	"fmt"
	"reflect"
	"runtime"
	"sort"
	"strconv"
	"strings"
	"sync"
	"sync/atomic"
	"time"
)

// ---------------------------------------------------------------------------------
// Goroutine identity

func goID() (id uint64) {
	var buf [64]byte
	n := runtime.Stack(buf[:], false)
	// "goroutine 123 [running]:"
	s := buf[:n]
	const p = "goroutine "
	if len(s) < len(p) {
		return 0
	}
	s = s[len(p):]
	for _, c := range s {
		if c < '0' || c > '9' {
			break
		}
		id = id*10 + uint64(c-'0')
	}
	return id
}

// parentGoID parses "created by ... in goroutine N" from the full stack of the caller.
func parentGoID() uint64 {
	buf := make([]byte, 1<<16)
	n := runtime.Stack(buf, false)
	s := string(buf[:n])
	i := strings.LastIndex(s, "created by ")
	if i < 0 {
		return 0
	}
	s = s[i:]
	j := strings.Index(s, " in goroutine ")
	if j < 0 {
		return 0
	}
	s = s[j+len(" in goroutine "):]
	k := 0
	for k < len(s) && s[k] >= '0' && s[k] <= '9' {
		k++
	}
	v, _ := strconv.ParseUint(s[:k], 10, 64)
	return v
}

// ---------------------------------------------------------------------------------
// Simulator

type actor struct {
	gid       uint64
	parent    uint64
	name      string // logical id; stable across runs and processes
	site      string // site of the yield it is parked at
	wake      chan struct{}
	parked    bool
	yields    int
	bornStep  int
	weight    float64 // relative speed drawn by the fault plan
	stallFor  int     // steps this actor is still excluded from selection
	prio      int     // PCT priority
	selects   uint64  // rewritten select statements executed so far
	polledVer uint64  // state version at which this actor last polled in vain
}

// Policy names the scheduling policy of one run.
type Policy int

const (
	PolUniform  Policy = iota // uniform choice among enabled actors
	PolWeighted               // per-actor speed weights (slow reader / slow snapping / slow targets)
	PolPCT                    // random priorities, highest enabled runs, few priority change points
	PolRoundRobin
	PolLowestFirst // always the lowest logical id: the canonical schedule (tape of zeros)
)

var PolicyNames = []string{"uniform", "weighted", "pct", "round-robin", "lowest-first"}

func (p Policy) String() string { return PolicyNames[p] }

// FaultPlan holds the per-run swarm parameters. Every rate may be zero.
type FaultPlan struct {
	Policy        Policy  `json:"policy"`
	StallRate     float64 `json:"stall_rate"`      // per step: start a stall episode on a random enabled actor
	StallMax      int     `json:"stall_max"`       // maximum length of a stall in steps
	LateStartRate float64 `json:"late_start_rate"` // per new goroutine: stall it at its first yield
	LateStartMax  int     `json:"late_start_max"`
	BurstRate     float64 `json:"burst_rate"` // per step: keep choosing the same actor
	BurstMax      int     `json:"burst_max"`
	ClockJumpRate float64 `json:"clock_jump_rate"` // per step: let fake time pass while actors are parked
	// ClockJumpBudgetMs: if > 0, the injected jumps of one run add up to at most this much
	// simulated time (for properties that say nothing about how long things may take)
	ClockJumpBudgetMs int     `json:"clock_jump_budget_ms,omitempty"`
	SlowFrac          float64 `json:"slow_frac"` // PolWeighted: fraction of actors that are slow
	PCTDepth          int     `json:"pct_depth"`
}

type Options struct {
	Seed     uint64
	Faults   FaultPlan
	Tape     []uint32 // non-nil: replay these choices (index into the sorted enabled set, modulo its size)
	Replay   bool
	MaxSteps int
	// WaitQuiescent blocks until every other goroutine of the bubble is durably blocked
	// (testing/synctest.Wait, supplied by the engine so that this package stays free of
	// package testing).
	WaitQuiescent func()
	// SleepFake advances the bubble's fake clock (time.Sleep inside the bubble).
	SleepFake func(time.Duration)
	// MaxIdleSimTime: how much simulated time may pass with no enabled actor before the
	// run is declared deadlocked.
	MaxIdleSimTime time.Duration
	Trace          bool
	// TapeSink, if set, sees every scheduling decision as it is taken (used to recover
	// the schedule of a run that ends by killing the process).
	TapeSink func(uint32)
	// AfterStep is evaluated at every quiescent point (invariants). A non-empty string
	// stops the run with that violation.
	AfterStep func(s *Sim) string
}

type Event struct {
	Step  int
	Actor string
	What  string
}

type Result struct {
	Outcome    string   `json:"outcome"` // ok | deadlock | livelock | ambiguous-spawn | invariant | replay-diverged
	Detail     string   `json:"detail,omitempty"`
	Steps      int      `json:"steps"`
	Tape       []uint32 `json:"tape"`
	Digest     uint64   `json:"digest"`
	Actors     int      `json:"actors"`
	MaxEnabled int      `json:"max_enabled"`
	Contended  int      `json:"contended"` // steps with >= 2 enabled actors
	SimTime    time.Duration
	Blocked    []string       `json:"blocked,omitempty"` // last site of every actor that never finished (deadlock report)
	Fired      map[string]int `json:"fired"`
	Trace      []string       `json:"trace,omitempty"`
	CallerDone bool           `json:"caller_done"`
}

type Sim struct {
	opt Options

	mu       sync.Mutex
	byGID    map[uint64]*actor
	newcomer []*actor
	actors   []*actor
	pending  []Event // events logged by actors during the current step
	siteCtr  map[string]int
	spawnCtr map[string]int

	callerDone     atomic.Bool
	mutexContended atomic.Int64

	rng       *RNG
	step      int
	tape      []uint32
	digest    uint64
	fired     map[string]int
	trace     []string
	lastActor *actor
	burstLeft int
	rr        int
	pctChange map[int]bool
	start     time.Time
	now       func() time.Time
	Step      int // exported copy of step for hooks
}

var cur atomic.Pointer[Sim]

// progress counts scheduler steps and run starts over the life of the process; an engine's
// real-time watchdog uses it to tell a hung process from a busy one.
var progress atomic.Uint64

// Progress returns the step counter and whether a simulation is running.
func Progress() (uint64, bool) { return progress.Load(), cur.Load() != nil }

// Active reports whether a simulation is running in this process.
func Active() bool { return cur.Load() != nil }

func New(opt Options) *Sim {
	if opt.MaxSteps == 0 {
		opt.MaxSteps = 100000
	}
	if opt.MaxIdleSimTime == 0 {
		opt.MaxIdleSimTime = 2 * time.Hour
	}
	s := &Sim{
		opt:      opt,
		byGID:    make(map[uint64]*actor),
		siteCtr:  make(map[string]int),
		spawnCtr: make(map[string]int),
		rng:      NewRNG(opt.Seed, "sched"),
		fired:    make(map[string]int),
	}
	return s
}

// currentActorName is used by the map seam to keep per-actor counters.
func currentActorName() string {
	s := cur.Load()
	if s == nil {
		return ""
	}
	g := goID()
	s.mu.Lock()
	defer s.mu.Unlock()
	if a := s.byGID[g]; a != nil {
		return a.name
	}
	return "?"
}

// Yield is the scheduling seam. simgen inserts it before every synchronisation or I/O
// operation of the instrumented code; fakes call it themselves. With no simulation
// running it returns at once (free-running passes, repo test suite).
func Yield(site string) {
	s := cur.Load()
	if s == nil {
		return
	}
	s.yield(site, "")
}

// YieldAs parks like Yield and (re)names the calling goroutine first.
func YieldAs(name, site string) {
	s := cur.Load()
	if s == nil {
		return
	}
	s.yield(site, name)
}

func (s *Sim) yield(site, rename string) {
	g := goID()
	s.mu.Lock()
	a := s.byGID[g]
	if a == nil {
		a = &actor{gid: g, parent: parentGoID(), wake: make(chan struct{}), weight: 1}
		s.byGID[g] = a
		s.newcomer = append(s.newcomer, a)
	}
	if rename != "" {
		a.name = rename
	}
	a.site = site
	a.parked = true
	a.yields++
	s.mu.Unlock()
	<-a.wake // durable block: the channel was made inside the bubble
}

// Spawned wraps a function value that is handed to code outside the module (time.AfterFunc,
// errgroup.Go, a worker pool). If the function is later started on a goroutine the
// simulator has not seen, that goroutine is named after the call that handed the function
// over (creator, site, per-creator counter) and parks before its first statement. Several
// timer callbacks due at the same simulated instant are thereby told apart, which their
// first scheduling point and (absent) parent could not do. Called on a goroutine the
// simulator knows (sync.Once.Do, a sort callback, a pool worker) the function just runs.
func Spawned[F any](site string, f F) F {
	s := cur.Load()
	if s == nil {
		return f
	}
	v := reflect.ValueOf(f)
	if v.Kind() != reflect.Func || v.IsNil() {
		return f
	}
	g := goID()
	s.mu.Lock()
	creator := "?"
	if a := s.byGID[g]; a != nil && a.name != "" {
		creator = a.name
	}
	k := creator + ">" + site
	n := s.spawnCtr[k]
	s.spawnCtr[k] = n + 1
	s.mu.Unlock()
	ticket := k + "#" + strconv.Itoa(n)
	var calls atomic.Int64
	w := reflect.MakeFunc(v.Type(), func(args []reflect.Value) []reflect.Value {
		if cur.Load() == s {
			g := goID()
			s.mu.Lock()
			known := s.byGID[g] != nil
			s.mu.Unlock()
			if !known {
				name := ticket
				if c := calls.Add(1); c > 1 {
					name += "@" + strconv.FormatInt(c, 10)
				}
				s.yield("spawned:"+site, name)
			}
		}
		if v.Type().IsVariadic() {
			return v.CallSlice(args)
		}
		return v.Call(args)
	})
	return w.Interface().(F)
}

// Logf records an event for the calling actor. Events of one step are merged in a
// canonical order (actor id, then per-actor sequence), never in real-time order.
func Logf(format string, args ...interface{}) {
	s := cur.Load()
	if s == nil {
		return
	}
	g := goID()
	msg := fmt.Sprintf(format, args...)
	s.mu.Lock()
	name := "?"
	if a := s.byGID[g]; a != nil && a.name != "" {
		name = a.name
	}
	s.pending = append(s.pending, Event{Actor: name, What: msg})
	s.mu.Unlock()
}

// Lock is what `mu.Lock()` becomes: sync.Mutex is not a durable block for synctest, so
// a goroutine must never sleep inside Lock while the holder is parked at a yield.
func Lock(site string, try func() bool, lock func()) {
	s := cur.Load()
	if s == nil {
		lock()
		return
	}
	s.yield(site, "")
	for !try() {
		s.mutexContended.Add(1)
		s.yield(site+":blocked", "")
	}
}

// ---- package-level channels ----

var bubbleInits []func()

// RegisterBubbleInit is called from init functions simgen adds: fn re-evaluates the
// initialiser of a package-level variable that holds a channel.
func RegisterBubbleInit(site string, fn func()) { bubbleInits = append(bubbleInits, fn) }

// RunBubbleInits is called by an engine once, inside its bubble, before any code under
// test runs: the package-level channels are made again, now as channels of the bubble.
func RunBubbleInits() {
	for _, fn := range bubbleInits {
		fn()
	}
}

// ---- sync.Cond, sync.Locker and sync.RWMutex under the simulator ----
//
// sync.Cond.Wait re-acquires its Locker with a plain Lock after the wake-up; if the holder is
// parked at a scheduling point the woken goroutine would sleep inside a mutex, which is not a
// durable block: the bubble could never go quiet. The three Cond operations are therefore
// emulated while a simulation runs (FIFO waiters like the runtime's notify list; the
// re-acquisition is a scheduling point plus try-lock polling, like Lock). An RWMutex gets
// Go's writer preference: a goroutine that wants the write lock announces itself, and new
// readers wait while one is announced — TryLock alone never announces anything, and the
// classic recursive-read-lock deadlock would be invisible.

var (
	auxMu       sync.Mutex // never held across a scheduling point
	condWaiters = map[*sync.Cond][]chan struct{}{}
	rwPending   = map[*sync.RWMutex]int{}
)

func CondWait(site string, c *sync.Cond) {
	s := cur.Load()
	if s == nil {
		c.Wait()
		return
	}
	ch := make(chan struct{}, 1)
	auxMu.Lock()
	condWaiters[c] = append(condWaiters[c], ch)
	auxMu.Unlock()
	c.L.Unlock()
	<-ch // durable: the channel was made inside the bubble
	s.lockLocker(site+":relock", c.L)
}

func CondSignal(site string, c *sync.Cond) {
	if cur.Load() == nil {
		c.Signal()
		return
	}
	auxMu.Lock()
	if q := condWaiters[c]; len(q) > 0 {
		q[0] <- struct{}{}
		if len(q) == 1 {
			delete(condWaiters, c)
		} else {
			condWaiters[c] = q[1:]
		}
	}
	auxMu.Unlock()
}

func CondBroadcast(site string, c *sync.Cond) {
	if cur.Load() == nil {
		c.Broadcast()
		return
	}
	auxMu.Lock()
	for _, ch := range condWaiters[c] {
		ch <- struct{}{}
	}
	delete(condWaiters, c)
	auxMu.Unlock()
}

// LockLocker is what `l.Lock()` on a sync.Locker value becomes.
func LockLocker(site string, l sync.Locker) {
	s := cur.Load()
	if s == nil {
		l.Lock()
		return
	}
	s.lockLocker(site, l)
}

func (s *Sim) lockLocker(site string, l sync.Locker) {
	s.yield(site, "")
	switch m := l.(type) {
	case *sync.RWMutex:
		s.rwLock(site, m, true)
	case interface{ TryLock() bool }:
		for !m.TryLock() {
			s.mutexContended.Add(1)
			s.yield(site+":blocked", "")
		}
	default:
		l.Lock() // (an RWMutex.RLocker(): no TryLock to poll with)
	}
}

// RWLock is what Lock / RLock on a sync.RWMutex becomes.
func RWLock(site string, m *sync.RWMutex, write bool) {
	s := cur.Load()
	if s == nil {
		if write {
			m.Lock()
		} else {
			m.RLock()
		}
		return
	}
	s.yield(site, "")
	s.rwLock(site, m, write)
}

func (s *Sim) rwLock(site string, m *sync.RWMutex, write bool) {
	if write {
		auxMu.Lock()
		rwPending[m]++
		auxMu.Unlock()
		for !m.TryLock() {
			s.mutexContended.Add(1)
			s.yield(site+":blocked", "")
		}
		auxMu.Lock()
		if rwPending[m]--; rwPending[m] <= 0 {
			delete(rwPending, m)
		}
		auxMu.Unlock()
		return
	}
	for {
		auxMu.Lock()
		pending := rwPending[m] > 0
		auxMu.Unlock()
		if !pending && m.TryRLock() {
			return
		}
		s.mutexContended.Add(1)
		s.yield(site+":blocked", "")
	}
}

func (s *Sim) note(kind string) { s.fired[kind]++ }

func (s *Sim) logStep(ev Event) {
	s.digest = mix64(s.digest ^ HashString(ev.Actor) ^ mix64(HashString(ev.What)+uint64(ev.Step)))
	if s.opt.Trace {
		s.trace = append(s.trace, fmt.Sprintf("%d %s %s", ev.Step, ev.Actor, ev.What))
	}
}

// absorb runs at a quiescent point: names new goroutines, merges events.
func (s *Sim) absorb() string {
	s.mu.Lock()
	defer s.mu.Unlock()
	if len(s.newcomer) > 0 {
		nc := s.newcomer
		s.newcomer = nil
		key := func(a *actor) string {
			pn := "?"
			if p := s.byGID[a.parent]; p != nil {
				pn = p.name
			}
			return a.site + "\x00" + pn + "\x00" + a.name
		}
		sort.SliceStable(nc, func(i, j int) bool { return key(nc[i]) < key(nc[j]) })
		for i := 1; i < len(nc); i++ {
			// two unnamed goroutines with the same first site and the same parent in one step
			if nc[i].name == "" && nc[i-1].name == "" && key(nc[i]) == key(nc[i-1]) {
				return "ambiguous spawn at " + nc[i].site
			}
		}
		for _, a := range nc {
			if a.name == "" {
				n := s.siteCtr[a.site]
				s.siteCtr[a.site] = n + 1
				a.name = a.site + "#" + strconv.Itoa(n)
			}
			a.bornStep = s.step
			s.actors = append(s.actors, a)
			s.pending = append(s.pending, Event{Actor: a.name, What: "born"})
		}
	}
	if len(s.pending) > 0 {
		p := s.pending
		s.pending = nil
		sort.SliceStable(p, func(i, j int) bool { return p[i].Actor < p[j].Actor })
		for _, ev := range p {
			ev.Step = s.step
			s.logStep(ev)
		}
	}
	return ""
}

func (s *Sim) enabled() []*actor {
	s.mu.Lock()
	defer s.mu.Unlock()
	var en []*actor
	for _, a := range s.actors {
		if a.parked {
			en = append(en, a)
		}
	}
	sort.Slice(en, func(i, j int) bool {
		if en[i].name != en[j].name {
			return en[i].name < en[j].name
		}
		return en[i].bornStep < en[j].bornStep
	})
	return en
}

// choose picks the index of the actor to release. In replay mode the tape decides.
func (s *Sim) choose(en []*actor) int {
	n := len(en)
	if n == 1 {
		// a stall ends when its victim is the only enabled actor
		en[0].stallFor = 0
		return 0
	}
	f := &s.opt.Faults
	// new stall episode
	if f.StallRate > 0 && s.rng.Chance(f.StallRate) {
		v := en[s.rng.Intn(n)]
		if v.stallFor == 0 {
			v.stallFor = 1 + s.rng.Intn(maxInt(1, f.StallMax))
		}
	}
	// candidates = enabled minus stalled
	cand := make([]int, 0, n)
	for i, a := range en {
		if a.stallFor > 0 {
			continue
		}
		cand = append(cand, i)
	}
	if len(cand) == 0 {
		// everybody is stalled: stalls are finite by construction, release the shortest
		best := 0
		for i, a := range en {
			if a.stallFor < en[best].stallFor {
				best = i
			}
		}
		en[best].stallFor = 0
		cand = append(cand, best)
	} else if len(cand) < n {
		s.note("stall")
		for _, a := range en {
			if a.stallFor > 0 {
				a.stallFor--
			}
		}
	}
	// burst: keep the same actor
	if s.burstLeft > 0 && s.lastActor != nil {
		for _, i := range cand {
			if en[i] == s.lastActor {
				s.burstLeft--
				s.note("burst")
				return i
			}
		}
		s.burstLeft = 0
	}
	if f.BurstRate > 0 && s.rng.Chance(f.BurstRate) {
		s.burstLeft = 1 + s.rng.Intn(maxInt(1, f.BurstMax))
	}
	switch f.Policy {
	case PolLowestFirst:
		return cand[0]
	case PolRoundRobin:
		s.rr++
		return cand[s.rr%len(cand)]
	case PolWeighted:
		tot := 0.0
		for _, i := range cand {
			tot += en[i].weight
		}
		x := s.rng.Float() * tot
		for _, i := range cand {
			x -= en[i].weight
			if x <= 0 {
				return i
			}
		}
		return cand[len(cand)-1]
	case PolPCT:
		if s.pctChange[s.step] {
			// priority change point: the running favourite drops to the lowest priority
			best := cand[0]
			for _, i := range cand {
				if en[i].prio > en[best].prio {
					best = i
				}
			}
			en[best].prio = -s.step
			s.note("pct-change")
		}
		best := cand[0]
		for _, i := range cand {
			if en[i].prio > en[best].prio {
				best = i
			}
		}
		return best
	}
	return cand[s.rng.Intn(len(cand))]
}

func maxInt(a, b int) int {
	if a > b {
		return a
	}
	return b
}

// onBirth draws the per-actor fault parameters. Uses the actor's logical id so that
// the draw does not depend on goroutine ids.
func (s *Sim) onBirth(a *actor) {
	f := &s.opt.Faults
	r := RNG{s: mix64(s.opt.Seed) ^ HashString("birth:"+a.name)}
	a.prio = 1 + int(r.Uint64()%1000000)
	if f.Policy == PolWeighted {
		x := r.Float()
		switch {
		case x < f.SlowFrac:
			a.weight = 0.04
		case x < f.SlowFrac+0.15:
			a.weight = 12
		}
	}
	if f.LateStartRate > 0 && r.Chance(f.LateStartRate) && !s.opt.Replay {
		a.stallFor = 1 + r.Intn(maxInt(1, f.LateStartMax))
		s.note("late-start-armed")
	}
}

// Run executes caller as the actor "caller" under the scheduler and returns when the
// system is quiescent with nothing left to schedule. It must be called from the root
// goroutine of a synctest bubble.
func (s *Sim) Run(caller func()) (res Result) {
	if !cur.CompareAndSwap(nil, s) {
		panic("simrt: a simulation is already running in this process")
	}
	defer cur.Store(nil)
	progress.Add(1)
	auxMu.Lock()
	clear(condWaiters) // what goroutines of earlier, aborted runs left behind
	clear(rwPending)
	auxMu.Unlock()
	t0 := time.Now() // fake clock inside the bubble
	if s.opt.Faults.Policy == PolPCT && !s.opt.Replay {
		s.pctChange = make(map[int]bool)
		d := maxInt(1, s.opt.Faults.PCTDepth)
		for i := 0; i < d; i++ {
			s.pctChange[1+s.rng.Intn(60)] = true
		}
	}
	go func() {
		s.yield("caller:start", "caller")
		caller()
		s.callerDone.Store(true)
		Logf("caller returned")
	}()
	known := 0
	idle := time.Duration(0)
	quantum := time.Millisecond
	finish := func(outcome, detail string) Result {
		s.mu.Lock()
		var blocked []string
		for _, a := range s.actors {
			blocked = append(blocked, fmt.Sprintf("%s last-yield=%s parked=%v", a.name, a.site, a.parked))
		}
		s.mu.Unlock()
		if n := s.mutexContended.Load(); n > 0 {
			s.fired["mutex-contended"] = int(n)
		}
		res = Result{Outcome: outcome, Detail: detail, Steps: s.step, Tape: s.tape, Digest: s.digest,
			Actors: len(s.actors), Fired: s.fired, Trace: s.trace, CallerDone: s.callerDone.Load(),
			SimTime: time.Since(t0)}
		if outcome != "ok" {
			res.Blocked = blocked
		}
		return res
	}
	maxEnabled, contended := 0, 0
	pollIdle, pollQuantum := time.Duration(0), time.Millisecond
	var lastPoller *actor
	version := uint64(1)       // bumped whenever the state of the system may have changed
	jumped := time.Duration(0) // simulated time injected by clock-jump faults so far
	defer func() { res.MaxEnabled = maxEnabled; res.Contended = contended }()
	for {
		s.opt.WaitQuiescent()
		if msg := s.absorb(); msg != "" {
			return finish("ambiguous-spawn", msg)
		}
		for ; known < len(s.actors); known++ {
			s.onBirth(s.actors[known])
		}
		s.Step = s.step
		if s.opt.AfterStep != nil {
			if v := s.opt.AfterStep(s); v != "" {
				return finish("invariant", v)
			}
		}
		en := s.enabled()
		if len(en) == 0 {
			if s.callerDone.Load() {
				return finish("ok", "")
			}
			// nobody can be scheduled and the caller has not returned: let simulated time
			// pass (timers, sleeps); if nothing wakes up within the budget it is a deadlock.
			if idle >= s.opt.MaxIdleSimTime {
				return finish("deadlock", "no enabled actor, caller not returned, simulated time budget exhausted")
			}
			s.opt.SleepFake(quantum)
			idle += quantum
			if quantum < 10*time.Minute {
				quantum *= 4
			}
			s.note("idle-clock-advance")
			continue
		}
		idle, quantum = 0, time.Millisecond
		// pollers: goroutines parked at a "...:blocked" site (a mutex somebody else holds, a
		// rewritten select none of whose cases is ready). A poller that has just polled in
		// vain is not eligible again until something changed — another goroutine ran, a
		// poller got through, or simulated time passed — exactly as if it were blocked. If
		// only such pollers are left, let simulated time pass; if that does not help within
		// the budget, it is a deadlock.
		if lastPoller != nil && !(lastPoller.parked && strings.HasSuffix(lastPoller.site, ":blocked")) {
			version++ // the poller released last time got through
			pollIdle, pollQuantum = 0, time.Millisecond
		}
		lastPoller = nil
		elig := en[:0:0]
		for _, a := range en {
			if !strings.HasSuffix(a.site, ":blocked") || a.polledVer < version {
				elig = append(elig, a)
			}
		}
		if len(elig) == 0 {
			if pollIdle >= s.opt.MaxIdleSimTime {
				return finish("deadlock", "every runnable goroutine waits for a mutex that is never released or for a select none of whose cases ever becomes ready")
			}
			s.opt.SleepFake(pollQuantum)
			pollIdle += pollQuantum
			if pollQuantum < 10*time.Minute {
				pollQuantum *= 4
			}
			s.note("poll-clock-advance")
			version++
			continue
		}
		en = elig
		if s.step >= s.opt.MaxSteps {
			return finish("livelock", fmt.Sprintf("step budget %d exhausted", s.opt.MaxSteps))
		}
		if len(en) > maxEnabled {
			maxEnabled = len(en)
		}
		if len(en) > 1 {
			contended++
		}
		if !s.opt.Replay && s.opt.Faults.ClockJumpRate > 0 && s.rng.Chance(s.opt.Faults.ClockJumpRate) {
			// clock-jump fault: simulated time passes while actors are still parked
			d := time.Duration(1+s.rng.Intn(5000)) * time.Millisecond
			if s.rng.Chance(0.2) {
				d = time.Duration(5+s.rng.Intn(115)) * time.Second // now and then a long stall of everybody
			}
			if b := time.Duration(s.opt.Faults.ClockJumpBudgetMs) * time.Millisecond; b == 0 || jumped+d <= b {
				jumped += d
				s.pushTape(clockJumpMark | uint32(d/time.Millisecond))
				s.doClockJump(d)
				version++
				continue
			}
		}
		if s.opt.Replay && s.tapePos() < len(s.opt.Tape) && s.opt.Tape[s.tapePos()]&clockJumpMark != 0 {
			d := time.Duration(s.opt.Tape[s.tapePos()]&^clockJumpMark) * time.Millisecond
			s.pushTape(s.opt.Tape[s.tapePos()])
			s.doClockJump(d)
			version++
			continue
		}
		var idx int
		if s.opt.Replay {
			if s.tapePos() < len(s.opt.Tape) {
				idx = int(s.opt.Tape[s.tapePos()]&^clockJumpMark) % len(en)
			}
		} else {
			idx = s.choose(en)
		}
		a := en[idx]
		if strings.HasSuffix(a.site, ":blocked") {
			lastPoller = a
			a.polledVer = version
		} else {
			version++
			pollIdle, pollQuantum = 0, time.Millisecond
		}
		s.pushTape(uint32(idx))
		ev := Event{Step: s.step, Actor: a.name, What: "run " + a.site + " en=" + strconv.Itoa(len(en))}
		s.logStep(ev)
		s.lastActor = a
		s.step++
		progress.Add(1)
		s.mu.Lock()
		a.parked = false
		s.mu.Unlock()
		a.wake <- struct{}{}
	}
}

func (s *Sim) pushTape(x uint32) {
	s.tape = append(s.tape, x)
	if s.opt.TapeSink != nil {
		s.opt.TapeSink(x)
	}
}

const clockJumpMark = uint32(1) << 31

// tapePos: position in the replay tape = number of tape entries consumed so far.
func (s *Sim) tapePos() int { return len(s.tape) }

func (s *Sim) doClockJump(d time.Duration) {
	s.note("clock-jump")
	s.logStep(Event{Step: s.step, Actor: "clock", What: "jump " + d.String()})
	s.opt.SleepFake(d)
}

// ActorsParkedAt returns the logical ids of actors currently parked at a site with the
// given prefix (for invariants evaluated in AfterStep).
func (s *Sim) ActorsParkedAt(prefix string) []string {
	s.mu.Lock()
	defer s.mu.Unlock()
	var out []string
	for _, a := range s.actors {
		if a.parked && strings.HasPrefix(a.site, prefix) {
			out = append(out, a.name)
		}
	}
	sort.Strings(out)
	return out
}

func (s *Sim) CallerDone() bool { return s.callerDone.Load() }

// ZeroOf / ZeroOfRecv return the zero value of a channel's element type (used by the
// rewritten select statements to declare their receive variables without naming types).
func ZeroOf[C ~chan T, T any](ch C) (z T)       { return }
func ZeroOfRecv[C ~<-chan T, T any](ch C) (z T) { return }

// Select is what a select statement with several communication cases becomes under
// simulation: each try is a non-blocking attempt of one case. The order in which they are
// tried is derived from the run's seed, the calling actor and a per-actor counter, so the
// choice among several ready cases is the simulator's and replays exactly. When no case
// is ready, block (a real blocking select over the same cases, nil if the statement has a
// default) decides: the goroutine blocks durably, as the original statement would, and is
// woken by the one event that makes a case ready. Returns the index of the case that
// went through, or -1 for the default case.
func Select(site string, block func() int, tries ...func() bool) int {
	s := cur.Load()
	if s == nil {
		panic("simrt.Select called without a running simulation")
	}
	g := goID()
	s.mu.Lock()
	a := s.byGID[g]
	name, ctr := "?", uint64(0)
	if a != nil {
		name = a.name
		a.selects++
		ctr = a.selects
	}
	s.mu.Unlock()
	r := RNG{s: mix64(s.opt.Seed) ^ HashString("select:"+name+"@"+site) ^ mix64(ctr)}
	for _, i := range r.Perm(len(tries)) {
		if tries[i]() {
			return i
		}
	}
	if block == nil {
		return -1
	}
	return block()
}

// ReflectSelect is what reflect.Select becomes: which of several ready cases is taken is
// the runtime's private coin there too. The cases are tried once, non-blocking, in an order
// derived from the seed, the actor and a per-actor counter; if none is ready and there is
// no default case the call blocks in the real reflect.Select.
func ReflectSelect(site string, cases []reflect.SelectCase) (int, reflect.Value, bool) {
	s := cur.Load()
	if s == nil {
		return reflect.Select(cases)
	}
	g := goID()
	s.mu.Lock()
	a := s.byGID[g]
	name, ctr := "?", uint64(0)
	if a != nil {
		name = a.name
		a.selects++
		ctr = a.selects
	}
	s.mu.Unlock()
	r := RNG{s: mix64(s.opt.Seed) ^ HashString("select:"+name+"@"+site) ^ mix64(ctr)}
	def := -1
	for _, i := range r.Perm(len(cases)) {
		c := cases[i]
		if c.Dir == reflect.SelectDefault {
			def = i
			continue
		}
		if chosen, v, ok := reflect.Select([]reflect.SelectCase{c, {Dir: reflect.SelectDefault}}); chosen == 0 {
			return i, v, ok
		}
	}
	if def >= 0 {
		return def, reflect.Value{}, false
	}
	return reflect.Select(cases)
}

// ---- the clock as a seam ----
//
// time.Now() and time.Since() of the instrumented code go through here. Inside a bubble
// that is the bubble's fake clock anyway; for code that runs outside one (the snapping
// library under snapsim) an engine can freeze the clock or let it race, and demand the
// same answer.

var (
	clockMode  atomic.Int32 // 0: the real (or the bubble's) clock, 1: frozen, 2: racing
	clockTicks atomic.Int64
	clockReads atomic.Int64
	clockBase  = time.Unix(1700000000, 0)
)

func SetClock(mode int) { clockMode.Store(int32(mode)); clockTicks.Store(0) }

// ClockReads: how often the instrumented code has read the clock so far.
func ClockReads() int64 { return clockReads.Load() }

func Now(site string) time.Time {
	clockReads.Add(1)
	switch clockMode.Load() {
	case 1:
		return clockBase
	case 2:
		return clockBase.Add(time.Duration(clockTicks.Add(1)) * 37 * time.Millisecond)
	}
	return time.Now()
}

func Since(site string, t time.Time) time.Duration { return Now(site).Sub(t) }

// ---- the machine as a seam ----
//
// Code that sizes itself from the machine (runtime.NumCPU, runtime.GOMAXPROCS(0)) or
// watches its memory (runtime.ReadMemStats) behaves differently on another machine, not
// under another schedule. While a simulation runs these calls answer from the run's seed:
// a machine of 1, 2, 3, 4, 6, 8, 16 or 64 processors, and in one run out of five a heap that
// looks enormous.

func machineRNG(s *Sim, what string) RNG {
	return RNG{s: mix64(s.opt.Seed) ^ HashString("machine:"+what)}
}

func NumCPU(site string) int {
	s := cur.Load()
	if s == nil {
		return runtime.NumCPU()
	}
	r := machineRNG(s, "cpus")
	return []int{1, 2, 3, 4, 6, 8, 16, 64}[r.Intn(8)]
}

// GOMAXPROCS: only the query (n < 1) is answered from the seed.
func GOMAXPROCS(site string, n int) int {
	s := cur.Load()
	if s == nil || n >= 1 {
		return runtime.GOMAXPROCS(n)
	}
	return NumCPU(site)
}

func ReadMemStats(site string, m *runtime.MemStats) {
	runtime.ReadMemStats(m)
	s := cur.Load()
	if s == nil {
		return
	}
	r := machineRNG(s, "memory")
	if r.Intn(5) == 0 { // memory pressure
		const huge = 1 << 50
		m.Alloc, m.HeapAlloc, m.HeapInuse, m.HeapSys, m.Sys, m.TotalAlloc = huge, huge, huge, huge, huge, huge
	}
}
