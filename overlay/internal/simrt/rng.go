// Package simrt is the runtime that the instrumented copy of PDOK/texel calls.
// It is generated into a scratch copy of /repo by /verif's simgen; nothing of it is
// ever committed to /repo. It owns the seams for goroutine scheduling (Yield),
// map iteration order (Range*/Keys/Values) and mutex acquisition (Lock).
//
// Language level: go1.21 (this package is compiled as part of the texel module).
package simrt

// RNG is splitmix64. One integer (VERIF_SEED) decides everything: every stream is
// derived from the seed and a label, so that shrinking one stream (the schedule)
// does not shift another (map orders, workload).
type RNG struct{ s uint64 }

func mix64(z uint64) uint64 {
	z = (z ^ (z >> 30)) * 0xbf58476d1ce4e5b9
	z = (z ^ (z >> 27)) * 0x94d049bb133111eb
	return z ^ (z >> 31)
}

// HashString is FNV-1a 64 followed by a splitmix finaliser.
func HashString(s string) uint64 {
	h := uint64(14695981039346656037)
	for i := 0; i < len(s); i++ {
		h ^= uint64(s[i])
		h *= 1099511628211
	}
	return mix64(h)
}

func NewRNG(seed uint64, label string) *RNG {
	return &RNG{s: mix64(seed+0x9e3779b97f4a7c15) ^ HashString(label)}
}

func (r *RNG) Uint64() uint64 {
	r.s += 0x9e3779b97f4a7c15
	return mix64(r.s)
}

// Intn returns a value in [0,n). n <= 0 yields 0.
func (r *RNG) Intn(n int) int {
	if n <= 1 {
		return 0
	}
	return int(r.Uint64() % uint64(n))
}

// Range returns a value in [lo,hi] (inclusive).
func (r *RNG) Range(lo, hi int) int {
	if hi <= lo {
		return lo
	}
	return lo + r.Intn(hi-lo+1)
}

func (r *RNG) Float() float64 {
	return float64(r.Uint64()>>11) / float64(1<<53)
}

func (r *RNG) Chance(p float64) bool { return r.Float() < p }

// Perm returns a permutation of 0..n-1 (Fisher-Yates).
func (r *RNG) Perm(n int) []int {
	p := make([]int, n)
	for i := range p {
		p[i] = i
	}
	for i := n - 1; i > 0; i-- {
		j := r.Intn(i + 1)
		p[i], p[j] = p[j], p[i]
	}
	return p
}
