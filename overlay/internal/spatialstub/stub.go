// Package spatialstub registers a database/sql driver named "spatialite" that is plain
// SQLite (mattn/go-sqlite3, R*Tree compiled in) plus pure-Go implementations of the five
// SQL functions the GeoPackage R*Tree triggers use. go-spatial's gpkg.Open uses an
// already registered driver of that name, which is the seam this stub sits behind:
// libspatialite is not installed in the sandbox.
//
// Generated into scratch copies only (engines and the cross-check binary import it);
// never part of /repo.
package spatialstub

import (
	"database/sql"
	"encoding/binary"
	"errors"
	"math"

	sqlite3 "github.com/mattn/go-sqlite3"
)

func init() {
	for _, d := range sql.Drivers() {
		if d == "spatialite" {
			return
		}
	}
	sql.Register("spatialite", &sqlite3.SQLiteDriver{
		ConnectHook: func(conn *sqlite3.SQLiteConn) error {
			if err := conn.RegisterFunc("ST_IsEmpty", stIsEmpty, true); err != nil {
				return err
			}
			for name, idx := range map[string]int{"ST_MinX": 0, "ST_MaxX": 1, "ST_MinY": 2, "ST_MaxY": 3} {
				i := idx
				if err := conn.RegisterFunc(name, func(v interface{}) interface{} { return stBound(v, i) }, true); err != nil {
					return err
				}
			}
			return nil
		},
	})
}

// Bounds scans a GeoPackage binary blob: (minx, maxx, miny, maxy), whether it holds no
// coordinate at all, and an error for malformed input.
func Bounds(blob []byte) (b [4]float64, empty bool, err error) {
	if len(blob) < 8 || blob[0] != 'G' || blob[1] != 'P' {
		return b, true, errors.New("not a GeoPackage binary")
	}
	flags := blob[3]
	envCode := (flags >> 1) & 7
	envLen := map[byte]int{0: 0, 1: 32, 2: 48, 3: 48, 4: 64}[envCode]
	if envCode > 4 {
		return b, true, errors.New("bad envelope code")
	}
	if len(blob) < 8+envLen {
		return b, true, errors.New("short header")
	}
	wkb := blob[8+envLen:]
	b = [4]float64{math.Inf(1), math.Inf(-1), math.Inf(1), math.Inf(-1)}
	n := 0
	rest, err := scanWKB(wkb, &b, &n)
	_ = rest
	if err != nil {
		return b, true, err
	}
	return b, n == 0, nil
}

func scanWKB(p []byte, b *[4]float64, n *int) ([]byte, error) {
	if len(p) < 5 {
		return nil, errors.New("short wkb")
	}
	var bo binary.ByteOrder = binary.BigEndian
	if p[0] == 1 {
		bo = binary.LittleEndian
	}
	typ := bo.Uint32(p[1:5])
	p = p[5:]
	dims := 2
	switch {
	case typ >= 3000:
		dims, typ = 4, typ-3000
	case typ >= 2000:
		dims, typ = 3, typ-2000
	case typ >= 1000:
		dims, typ = 3, typ-1000
	}
	readPoints := func(cnt int) error {
		for i := 0; i < cnt; i++ {
			if len(p) < 8*dims {
				return errors.New("short coordinates")
			}
			x := math.Float64frombits(bo.Uint64(p[0:8]))
			y := math.Float64frombits(bo.Uint64(p[8:16]))
			p = p[8*dims:]
			if math.IsNaN(x) || math.IsNaN(y) {
				continue // POINT EMPTY
			}
			*n++
			b[0], b[1] = math.Min(b[0], x), math.Max(b[1], x)
			b[2], b[3] = math.Min(b[2], y), math.Max(b[3], y)
		}
		return nil
	}
	count := func() (int, error) {
		if len(p) < 4 {
			return 0, errors.New("short count")
		}
		c := int(bo.Uint32(p[0:4]))
		p = p[4:]
		return c, nil
	}
	switch typ {
	case 1:
		return p, readPoints(1)
	case 2:
		c, err := count()
		if err != nil {
			return nil, err
		}
		return p, readPoints(c)
	case 3:
		rings, err := count()
		if err != nil {
			return nil, err
		}
		for r := 0; r < rings; r++ {
			c, err := count()
			if err != nil {
				return nil, err
			}
			if err := readPoints(c); err != nil {
				return nil, err
			}
		}
		return p, nil
	case 4, 5, 6, 7:
		c, err := count()
		if err != nil {
			return nil, err
		}
		for i := 0; i < c; i++ {
			rest, err := scanWKB(p, b, n)
			if err != nil {
				return nil, err
			}
			p = rest
		}
		return p, nil
	}
	return nil, errors.New("unsupported wkb type")
}

func asBlob(v interface{}) ([]byte, bool) {
	switch x := v.(type) {
	case []byte:
		return x, true
	case string:
		return []byte(x), true
	}
	return nil, false
}

func stIsEmpty(v interface{}) interface{} {
	blob, ok := asBlob(v)
	if !ok {
		return nil
	}
	_, empty, err := Bounds(blob)
	if err != nil {
		return nil
	}
	if blob[3]&0x10 != 0 {
		empty = true
	}
	if empty {
		return int64(1)
	}
	return int64(0)
}

func stBound(v interface{}, i int) interface{} {
	blob, ok := asBlob(v)
	if !ok {
		return nil
	}
	b, empty, err := Bounds(blob)
	if err != nil || empty {
		return nil
	}
	return b[i]
}
