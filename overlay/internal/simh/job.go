// Package simh holds what the simulation engines share: the job / result protocol
// between /verif's driver and the engine test binaries, and small helpers.
// Generated into the scratch copy only; never part of /repo.
package simh

import (
	"encoding/json"
	"fmt"
	"os"
	"sort"
	"strings"
	"sync"
	"syscall"
	"time"
)

// Job is what the driver hands to one engine process (path in $VERIF_JOB).
type Job struct {
	Engine   string `json:"engine"`
	Property string `json:"property"`
	Mix      string `json:"mix"`  // workload / fault mix (engines may serve several properties)
	Mode     string `json:"mode"` // explore | candidates | selftest | race
	Tier     string `json:"tier"`
	SeedLo   uint64 `json:"seed_lo"`
	SeedHi   uint64 `json:"seed_hi"` // exclusive
	// BudgetS: stop exploring after this many wall-clock seconds (0 = run the whole range).
	BudgetS float64 `json:"budget_s"`
	Out     string  `json:"out"` // JSON lines
	// Candidates: replay objects to evaluate in order (mode candidates)
	Candidates []json.RawMessage `json:"candidates,omitempty"`
	// StopAtFirst: in candidates mode stop at the first candidate showing class WantClass
	WantClass string            `json:"want_class,omitempty"`
	Samples   int               `json:"samples"` // how many complete runs to write out as samples
	Scratch   string            `json:"scratch"` // directory for files (tmpfs)
	Extra     map[string]string `json:"extra,omitempty"`
}

func LoadJob() (*Job, error) {
	p := os.Getenv("VERIF_JOB")
	if p == "" {
		return nil, nil
	}
	b, err := os.ReadFile(p)
	if err != nil {
		return nil, err
	}
	var j Job
	if err := json.Unmarshal(b, &j); err != nil {
		return nil, err
	}
	return &j, nil
}

// Violation is reported by an engine; Class is the stable part used for shrinking
// ("same violation class") and for matching known findings.
type Violation struct {
	Class   string `json:"class"`
	Message string `json:"message"`
}

// Out writes JSON lines, flushing each line (a crash must not lose the line that
// names the run in flight).
type Out struct {
	mu sync.Mutex
	f  *os.File
}

func OpenOut(path string) (*Out, error) {
	f, err := os.OpenFile(path, os.O_CREATE|os.O_WRONLY|os.O_APPEND, 0o644)
	if err != nil {
		return nil, err
	}
	return &Out{f: f}, nil
}

func (o *Out) Line(v interface{}) {
	b, err := json.Marshal(v)
	if err != nil {
		panic(err)
	}
	o.mu.Lock()
	defer o.mu.Unlock()
	o.f.Write(append(b, '\n'))
}

func (o *Out) Close() { o.f.Close() }

// Counter is a string-keyed tally that marshals deterministically.
type Counter map[string]int64

func (c Counter) Add(k string, n int64) { c[k] += n }
func (c Counter) Inc(k string)          { c[k]++ }
func (c Counter) Merge(o Counter) {
	for k, v := range o {
		c[k] += v
	}
}
func (c Counter) Keys() []string {
	ks := make([]string, 0, len(c))
	for k := range c {
		ks = append(ks, k)
	}
	sort.Strings(ks)
	return ks
}

// Summary is the aggregated coverage one engine process reports at its end.
type Summary struct {
	T            string            `json:"t"` // "summary"
	Engine       string            `json:"engine"`
	Mode         string            `json:"mode"`
	SeedLo       uint64            `json:"seed_lo"`
	SeedNext     uint64            `json:"seed_next"` // first seed not run
	Runs         int64             `json:"runs"`
	NonTrivial   int64             `json:"nontrivial_runs"`
	DigestsTotal int64             `json:"digests_total"`
	Steps        int64             `json:"steps"`
	SimTimeMs    int64             `json:"sim_time_ms"`
	Fired        Counter           `json:"fired"`
	Probes       Counter           `json:"probes"`
	Oracles      Counter           `json:"oracles"`
	Samples      []json.RawMessage `json:"samples"`
	WallS        float64           `json:"wall_s"`
	MapSites     Counter           `json:"map_sites,omitempty"`
	Notes        []string          `json:"notes,omitempty"`
}

func NewSummary(engine, mode string, lo uint64) *Summary {
	return &Summary{T: "summary", Engine: engine, Mode: mode, SeedLo: lo, SeedNext: lo,
		Fired: Counter{}, Probes: Counter{}, Oracles: Counter{}, MapSites: Counter{}}
}

// DigestSet keeps distinct digests up to a cap (the count stays exact below the cap;
// above it the reported number is a lower bound and says so).
type DigestSet struct {
	m   map[uint64]struct{}
	cap int
}

func NewDigestSet(cap int) *DigestSet { return &DigestSet{m: make(map[uint64]struct{}), cap: cap} }
func (d *DigestSet) Add(x uint64) {
	if len(d.m) < d.cap {
		d.m[x] = struct{}{}
	}
}
func (d *DigestSet) Len() int { return len(d.m) }
func (d *DigestSet) Slice() []uint64 {
	out := make([]uint64, 0, len(d.m))
	for k := range d.m {
		out = append(out, k)
	}
	sort.Slice(out, func(i, j int) bool { return out[i] < out[j] })
	return out
}

// Deadline helps explore loops honour the wall-clock budget. Wall-clock time decides
// only how many seeds are run, never what a seed does.
type Deadline struct{ end time.Time }

// RealNow is the wall clock even inside a synctest bubble (where package time is faked).
func RealNow() time.Time {
	var tv syscall.Timeval
	if err := syscall.Gettimeofday(&tv); err != nil {
		return time.Now()
	}
	return time.Unix(int64(tv.Sec), int64(tv.Usec)*1000)
}

func NewDeadline(budgetS float64) Deadline {
	if budgetS <= 0 {
		return Deadline{}
	}
	return Deadline{end: RealNow().Add(time.Duration(budgetS * float64(time.Second)))}
}
func (d Deadline) Expired() bool { return !d.end.IsZero() && RealNow().After(d.end) }

func Fatalf(format string, args ...interface{}) {
	fmt.Fprintf(os.Stderr, "ENGINE-ERROR: "+format+"\n", args...)
	os.Exit(3)
}

// RunLog redirects package log to a file that holds only the current run's output
// (log.Fatal exits right after writing, so the file is the only place its message
// survives). Reset truncates it at the start of a run.
type RunLog struct{ f *os.File }

func NewRunLog(path string) *RunLog {
	f, err := os.OpenFile(path, os.O_CREATE|os.O_RDWR|os.O_TRUNC, 0o644)
	if err != nil {
		Fatalf("runlog: %v", err)
	}
	return &RunLog{f: f}
}

func (l *RunLog) Write(p []byte) (int, error) { return l.f.Write(p) }
func (l *RunLog) Reset() {
	l.f.Truncate(0)
	l.f.Seek(0, 0)
}

// WriteDigests stores distinct digests (binary, little endian) next to the result file
// so that the driver can count the union over all worker processes.
func WriteDigests(path string, ds []uint64) {
	b := make([]byte, 8*len(ds))
	for i, d := range ds {
		for k := 0; k < 8; k++ {
			b[8*i+k] = byte(d >> (8 * k))
		}
	}
	if err := os.WriteFile(path, b, 0o644); err != nil {
		Fatalf("digests: %v", err)
	}
}

func ReadDigests(path string) []uint64 {
	b, err := os.ReadFile(path)
	if err != nil {
		Fatalf("digests: %v", err)
	}
	out := make([]uint64, 0, len(b)/8)
	for i := 0; i+8 <= len(b); i += 8 {
		var d uint64
		for k := 0; k < 8; k++ {
			d |= uint64(b[i+k]) << (8 * k)
		}
		out = append(out, d)
	}
	return out
}

// StreamReplay serves the diagnostic re-run of a seed whose run killed the process: if
// the job asks for it (Extra["stream"]), the replay object is written before the run
// starts and the returned sink streams every scheduling decision to the same file.
func StreamReplay(job *Job, replay func() interface{}) func(uint32) {
	p := job.Extra["stream"]
	if p == "" {
		return nil
	}
	so, err := OpenOut(p)
	if err != nil {
		Fatalf("%v", err)
	}
	so.Line(map[string]interface{}{"t": "replay", "replay": replay()})
	return func(x uint32) { so.Line(map[string]interface{}{"t": "tape", "x": x}) }
}

// IsKnown reports whether a violation class is listed as a known finding for this job
// (the driver passes the list; engines then count the occurrence and carry on).
func (j *Job) IsKnown(class string) bool {
	for _, k := range strings.Split(j.Extra["known"], ",") {
		if k != "" && k == class {
			return true
		}
	}
	return false
}
