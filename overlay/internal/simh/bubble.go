//go:build go1.25

package simh

import (
	"fmt"
	"runtime"
	"strings"
	"testing"
	"testing/synctest"
	"time"

	"github.com/pdok/texel/internal/simrt"
)

// RunBubble runs caller as the simulation's "caller" actor inside a fresh synctest
// bubble. After the simulator has gone quiet it lets one hour of simulated time pass
// (helpers that clean up on a timer get their chance) and then looks for goroutines of
// the bubble that are still alive: those are goroutines left behind. If any of them can
// never finish (a ticker loop, say), leaving the bubble would hang, so onLeak — which
// must report and end the process — is called from inside the bubble.
//
// leak is non-empty also when leaving the bubble panicked because goroutines remained
// durably blocked (the case in which onLeak is nil or returned).
func RunBubble(t *testing.T, opt simrt.Options, caller func(), onLeak func(stacks string)) (res simrt.Result, leak string) {
	func() {
		defer func() {
			if r := recover(); r != nil && leak == "" {
				leak = fmt.Sprint(r)
			}
		}()
		synctest.Test(t, func(t *testing.T) {
			opt.WaitQuiescent = synctest.Wait
			opt.SleepFake = func(d time.Duration) { time.Sleep(d) }
			base := runtime.NumGoroutine()
			s := simrt.New(opt)
			res = s.Run(caller)
			if res.Outcome != "ok" {
				return
			}
			time.Sleep(time.Hour)
			synctest.Wait()
			if runtime.NumGoroutine() <= base {
				return
			}
			// a goroutine that has left the bubble's accounting may still be on its way out:
			// only goroutines that persist count
			st := bubbleStacks()
			for i := 0; i < 200 && st != ""; i++ {
				for k := 0; k < 50; k++ {
					runtime.Gosched()
				}
				synctest.Wait()
				st = bubbleStacks()
			}
			if st != "" {
				leak = "goroutines of the run are still alive one simulated hour after everything went quiet:\n" + st
				if onLeak != nil {
					onLeak(leak)
				}
			}
		})
	}()
	return res, leak
}

// bubbleStacks returns the stacks of the bubble's goroutines other than the caller's own.
func bubbleStacks() string {
	buf := make([]byte, 1<<20)
	n := runtime.Stack(buf, true)
	var out []string
	mine := ""
	for i, g := range strings.Split(string(buf[:n]), "\n\n") {
		head, _, _ := strings.Cut(g, "\n")
		if i == 0 { // the calling goroutine comes first: which bubble are we in?
			if k := strings.Index(head, "synctest bubble "); k >= 0 {
				mine = strings.TrimRight(head[k:], "]:")
			}
			continue
		}
		// two goroutines of package testing/synctest itself belong to every bubble
		if strings.Contains(g, "internal/synctest.Run(") || strings.Contains(g, "testing/synctest.testingSynctestTest(") {
			continue
		}
		// only goroutines of THIS bubble (an earlier run of the same process may have left
		// goroutines parked in its own, abandoned bubble)
		if mine != "" && strings.Contains(head, mine+"]") || mine != "" && strings.Contains(head, mine+",") {
			if len(g) > 1200 {
				g = g[:1200] + "..."
			}
			out = append(out, g)
		}
	}
	return strings.Join(out, "\n\n")
}
