//go:build go1.25

package simh

import (
	"fmt"
	"os"
	"os/signal"
	"runtime"
	"strings"
	"sync"
	"syscall"
	"testing"
	"testing/synctest"
	"time"

	"github.com/pdok/texel/internal/simrt"
)

// RunBubble runs caller as the simulation's "caller" actor inside a fresh synctest
// bubble. After the simulator has gone quiet it lets one hour of simulated time pass
// (helpers that clean up on a timer get their chance) and then looks for goroutines of
// the bubble that are still alive: those are goroutines left behind. If any of them can
// never finish (a ticker loop, say), leaving the bubble would hang, so onLeak — which
// must report and end the process — is called from inside the bubble.
//
// leak is non-empty also when leaving the bubble panicked because goroutines remained
// durably blocked (the case in which onLeak is nil or returned).
func RunBubble(t *testing.T, opt simrt.Options, caller func(), onLeak func(stacks string)) (res simrt.Result, leak string) {
	body := func() {
		opt.WaitQuiescent = synctest.Wait
		opt.SleepFake = func(d time.Duration) { time.Sleep(d) }
		// goroutines that are there already: nothing in a fresh bubble; in a long-lived bubble
		// the engine's own and the leftovers of earlier, aborted runs (knownG)
		before := knownG
		nBefore := runtime.NumGoroutine()
		s := simrt.New(opt)
		res = s.Run(caller)
		if res.Outcome != "ok" {
			if inBubble { // the aborted run's goroutines stay parked in the bubble for good
				knownG = bubbleGoroutines()
			}
			return
		}
		time.Sleep(time.Hour)
		synctest.Wait()
		if runtime.NumGoroutine() <= nBefore {
			return
		}
		// a goroutine that has left the bubble's accounting may still be on its way out:
		// only goroutines that persist count
		st := newBubbleStacks(before)
		for i := 0; i < 200 && st != ""; i++ {
			for k := 0; k < 50; k++ {
				runtime.Gosched()
			}
			synctest.Wait()
			st = newBubbleStacks(before)
		}
		if st != "" {
			leak = "goroutines of the run are still alive one simulated hour after everything went quiet:\n" + st
			if onLeak != nil {
				onLeak(leak)
			}
		}
	}
	if inBubble {
		body()
		return res, leak
	}
	primeProcessWideMachinery()
	func() {
		defer func() {
			if r := recover(); r != nil && leak == "" {
				leak = fmt.Sprint(r)
			}
		}()
		synctest.Test(t, func(t *testing.T) { simrt.RunBubbleInits(); body() })
	}()
	return res, leak
}

// inBubble: the engine runs its whole loop of simulated runs inside ONE bubble (InBubble),
// so that state the code under test keeps across calls — a package-level channel created
// during an earlier run, say — lives in the same bubble as the run that meets it. (A channel
// of another bubble is not a durable block for synctest: the run would hang.)
var inBubble bool

// knownG: ids of the bubble's goroutines that do not belong to the current run (nil in a
// fresh bubble: everything but the caller is new there).
var knownG map[string]bool

// InBubble runs body inside one synctest bubble. Returns what leaving the bubble said
// (goroutines of aborted runs stay parked in it; that is expected).
func InBubble(t *testing.T, body func()) (exit string) {
	startHangWatchdog()
	primeProcessWideMachinery()
	defer func() {
		inBubble, knownG = false, nil
		if r := recover(); r != nil {
			exit = fmt.Sprint(r)
		}
	}()
	synctest.Test(t, func(t *testing.T) {
		inBubble = true
		simrt.RunBubbleInits()
		knownG = bubbleGoroutines()
		body()
	})
	return ""
}

var primeOnce sync.Once

// primeProcessWideMachinery starts, outside any bubble, the lazily created process-wide
// helpers of the runtime and standard library that code under test may touch: their
// channels and goroutines must not belong to a bubble (os/signal: the runtime's signal-mask
// goroutine selects on channels made at the first signal.Notify; made inside a bubble that is
// a fatal "select on synctest channel from outside bubble").
func primeProcessWideMachinery() {
	primeOnce.Do(func() {
		c := make(chan os.Signal, 1)
		signal.Notify(c, syscall.SIGUSR2)
		signal.Stop(c)
	})
}

// bubbleGoroutines returns the ids of the goroutines of the current bubble.
func bubbleGoroutines() map[string]bool {
	ids := map[string]bool{}
	for _, g := range bubbleDump() {
		ids[g.id] = true
	}
	return ids
}

type gdump struct{ id, text string }

func bubbleDump() []gdump {
	buf := make([]byte, 1<<21)
	n := runtime.Stack(buf, true)
	var out []gdump
	mine := ""
	for i, g := range strings.Split(string(buf[:n]), "\n\n") {
		head, _, _ := strings.Cut(g, "\n")
		if i == 0 { // the calling goroutine comes first: which bubble are we in?
			if k := strings.Index(head, "synctest bubble "); k >= 0 {
				mine = strings.TrimRight(head[k:], "]:")
			}
			continue
		}
		// two goroutines of package testing/synctest itself belong to every bubble
		if strings.Contains(g, "internal/synctest.Run(") || strings.Contains(g, "testing/synctest.testingSynctestTest(") {
			continue
		}
		if mine == "" || !(strings.Contains(head, mine+"]") || strings.Contains(head, mine+",")) {
			continue
		}
		id := strings.TrimPrefix(head, "goroutine ")
		if k := strings.Index(id, " "); k > 0 {
			id = id[:k]
		}
		out = append(out, gdump{id, g})
	}
	return out
}

// newBubbleStacks: stacks of the bubble's goroutines that were not there before the run
// (the engine's own goroutine and leftovers of earlier, aborted runs excluded).
func newBubbleStacks(before map[string]bool) string {
	var out []string
	for _, g := range bubbleDump() {
		if before[g.id] {
			continue
		}
		t := g.text
		if len(t) > 1200 {
			t = t[:1200] + "..."
		}
		out = append(out, t)
	}
	return strings.Join(out, "\n\n")
}

var watchdogOnce sync.Once

// startHangWatchdog: a goroutine outside the bubble that ends the process (exit status 5)
// when a simulation is running but the scheduler has not taken a step for 25 s of real
// time. That happens when the code under test blocks in a way synctest does not see as a
// block (a channel made at package initialisation, outside any bubble; a real lock), so
// that quiescence is never reached. It is reported as machinery trouble, never as a
// violation.
func startHangWatchdog() {
	watchdogOnce.Do(func() {
		go func() {
			last, lastChange := uint64(0), RealNow()
			for {
				sleepReal(2 * time.Second)
				n, active := simrt.Progress()
				if n != last || !active {
					last, lastChange = n, RealNow()
					continue
				}
				if RealNow().Sub(lastChange) > 25*time.Second {
					buf := make([]byte, 1<<20)
					k := runtime.Stack(buf, true)
					fmt.Fprintf(os.Stderr, "ENGINE-HANG: no scheduler step for 25 s of real time; goroutines:\n%s\n", buf[:k])
					os.Exit(5)
				}
			}
		}()
	})
}

// sleepReal sleeps on the real clock (this goroutine is outside every bubble, so package
// time is real for it).
func sleepReal(d time.Duration) { time.Sleep(d) }
