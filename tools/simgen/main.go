// simgen instruments a scratch copy of PDOK/texel for deterministic simulation.
//
//	T1  every `range` over a map  -> three-clause loop over simrt.Range*(SITE, m)
//	T1b x/exp/maps.Keys / Values  -> simrt.Keys / simrt.Values
//	T2  simrt.Yield(SITE) before every statement that synchronises (channel send,
//	    receive, close, select, go, sync.* method, time.Sleep/After...) or performs
//	    I/O (database/sql, os, log, go-spatial gpkg handle), at the top of every
//	    function started with `go`, and at the top of the body of a range over a channel
//	T2m `mu.Lock()` / `mu.RLock()` on sync.Mutex / sync.RWMutex -> simrt.Lock(SITE, mu.TryLock, mu.Lock)
//
// It only rewrites non-test files of the main module, writes an inventory (JSON) of
// what it found, and exits 2 on any construct it cannot instrument faithfully.
package main

import (
	"bytes"
	"encoding/json"
	"flag"
	"fmt"
	"go/ast"
	"go/format"
	"go/token"
	"go/types"
	"os"
	"path/filepath"
	"sort"
	"strconv"
	"strings"

	"golang.org/x/tools/go/ast/astutil"
	"golang.org/x/tools/go/packages"
)

type Inventory struct {
	Module      string   `json:"module"`
	Packages    []string `json:"packages"`
	MapSites    []string `json:"map_sites"`
	KeysSites   []string `json:"maps_keys_sites"`
	YieldSites  []string `json:"yield_sites"`
	GoStarts    []string `json:"go_start_sites"`
	MutexSites  []string `json:"mutex_sites"`
	Unsupported []string `json:"unsupported"`
	// scheduling points placed more coarsely than the operation itself
	Approximated []string `json:"approximated"`
	// sources of nondeterminism that are instrumented but cannot be owned
	Uncontrolled []string `json:"uncontrolled_sources"`
	ClockSites   []string `json:"clock_sites"`
	FilesChanged []string `json:"files_changed"`
	// select statements made deterministic by pass C
	SelectSites int `json:"select_sites_controlled"`
}

var (
	inv      Inventory
	fset     *token.FileSet
	root     string
	simrtPkg string
)

func fail(format string, args ...interface{}) {
	fmt.Fprintf(os.Stderr, "simgen: "+format+"\n", args...)
	os.Exit(2)
}

func main() {
	dir := flag.String("dir", "", "scratch copy of the repository (rewritten in place)")
	out := flag.String("inventory", "", "write the inventory JSON here")
	flag.Parse()
	if *dir == "" {
		fail("-dir required")
	}
	var err error
	root, err = filepath.Abs(*dir)
	if err != nil {
		fail("%v", err)
	}
	cfg := &packages.Config{
		Mode: packages.NeedName | packages.NeedFiles | packages.NeedSyntax | packages.NeedTypes |
			packages.NeedTypesInfo | packages.NeedImports | packages.NeedModule | packages.NeedCompiledGoFiles,
		Dir:   root,
		Tests: false,
	}
	pkgs, err := packages.Load(cfg, "./...")
	if err != nil {
		fail("load: %v", err)
	}
	if packages.PrintErrors(pkgs) > 0 {
		fail("packages have errors")
	}
	if len(pkgs) == 0 {
		fail("no packages")
	}
	sort.Slice(pkgs, func(i, j int) bool { return pkgs[i].PkgPath < pkgs[j].PkgPath })
	for _, p := range pkgs {
		if p.Module == nil {
			fail("package %s has no module", p.PkgPath)
		}
		inv.Module = p.Module.Path
	}
	simrtPkg = inv.Module + "/internal/simrt"
	fset = pkgs[0].Fset

	// pass A: functions of this module started with `go`
	goStarted := map[types.Object]bool{}
	for _, p := range pkgs {
		if isOverlayPkg(p.PkgPath) {
			continue
		}
		for _, f := range p.Syntax {
			ast.Inspect(f, func(n ast.Node) bool {
				g, ok := n.(*ast.GoStmt)
				if !ok {
					return true
				}
				if obj := calleeObj(p.TypesInfo, g.Call); obj != nil && obj.Pkg() != nil &&
					strings.HasPrefix(obj.Pkg().Path(), inv.Module) {
					goStarted[obj] = true
				}
				return true
			})
		}
	}

	// pass B: rewrite
	for _, p := range pkgs {
		if isOverlayPkg(p.PkgPath) {
			continue
		}
		inv.Packages = append(inv.Packages, p.PkgPath)
		for i, f := range p.Syntax {
			fn := p.CompiledGoFiles[i]
			if strings.HasSuffix(fn, "_test.go") || !strings.HasPrefix(fn, root) {
				continue
			}
			r := &rewriter{info: p.TypesInfo, file: f, rel: rel(fn), goStarted: goStarted}
			r.run()
			if !r.changed {
				continue
			}
			stripBodyComments(f)
			astutil.AddNamedImport(fset, f, "simrt", simrtPkg)
			for _, ip := range []string{"golang.org/x/exp/maps", "runtime", "time", "reflect"} {
				if !astutil.UsesImport(f, ip) {
					astutil.DeleteImport(fset, f, ip)
				}
			}
			var buf bytes.Buffer
			if err := format.Node(&buf, fset, f); err != nil {
				fail("format %s: %v", fn, err)
			}
			if err := os.WriteFile(fn, buf.Bytes(), 0o644); err != nil {
				fail("write %s: %v", fn, err)
			}
			inv.FilesChanged = append(inv.FilesChanged, rel(fn))
		}
	}
	// pass C works on the rewritten files
	hasSelect := false
	for _, u := range inv.Uncontrolled {
		if strings.Contains(u, "select-with-several-cases") {
			hasSelect = true
		}
	}
	if hasSelect {
		selectPass(root)
		if inv.SelectSites > 0 {
			// only the selects pass C could not take stay uncontrolled
			var rest []string
			skipped := len(inv.Uncontrolled)
			for _, u := range inv.Uncontrolled {
				if !strings.Contains(u, "select-with-several-cases") {
					rest = append(rest, u)
				}
			}
			nSel := skipped - len(rest)
			for i := 0; i < nSel-inv.SelectSites; i++ {
				rest = append(rest, "select-with-several-cases (labelled, nested or unusual: left to the runtime's choice)")
			}
			inv.Uncontrolled = rest
		}
	}
	for _, l := range []*[]string{&inv.MapSites, &inv.KeysSites, &inv.YieldSites, &inv.GoStarts, &inv.MutexSites, &inv.Unsupported, &inv.Uncontrolled, &inv.FilesChanged} {
		sort.Strings(*l)
	}
	if *out != "" {
		b, _ := json.MarshalIndent(inv, "", " ")
		if err := os.WriteFile(*out, b, 0o644); err != nil {
			fail("%v", err)
		}
	}
	if len(inv.Unsupported) > 0 {
		fail("constructs that cannot be instrumented faithfully:\n  %s", strings.Join(inv.Unsupported, "\n  "))
	}
	fmt.Printf("simgen: %d packages, %d map sites, %d maps.Keys sites, %d yield sites, %d go-start sites, %d mutex sites, %d files rewritten\n",
		len(inv.Packages), len(inv.MapSites), len(inv.KeysSites), len(inv.YieldSites), len(inv.GoStarts), len(inv.MutexSites), len(inv.FilesChanged))
}

// isOverlayPkg: packages /verif itself adds to the copy are not instrumented.
func isOverlayPkg(path string) bool {
	for _, n := range []string{"simrt", "simh", "spatialstub", "gpkgh"} {
		if path == inv.Module+"/internal/"+n {
			return true
		}
	}
	return false
}

func rel(fn string) string {
	r, err := filepath.Rel(root, fn)
	if err != nil {
		return fn
	}
	return r
}

// stripBodyComments keeps only comments before the package clause and doc comments of
// declarations: free-floating comments next to inserted (position-less) nodes can be
// printed in the middle of a line and swallow code.
func stripBodyComments(f *ast.File) {
	keep := map[*ast.CommentGroup]bool{}
	if f.Doc != nil {
		keep[f.Doc] = true
	}
	for _, d := range f.Decls {
		switch d := d.(type) {
		case *ast.FuncDecl:
			if d.Doc != nil {
				keep[d.Doc] = true
			}
		case *ast.GenDecl:
			if d.Doc != nil {
				keep[d.Doc] = true
			}
			for _, s := range d.Specs {
				switch s := s.(type) {
				case *ast.ValueSpec:
					if s.Doc != nil {
						keep[s.Doc] = true
					}
				case *ast.TypeSpec:
					if s.Doc != nil {
						keep[s.Doc] = true
					}
				case *ast.ImportSpec:
					if s.Doc != nil {
						keep[s.Doc] = true
					}
				}
			}
		}
	}
	var out []*ast.CommentGroup
	for _, cg := range f.Comments {
		if keep[cg] || cg.End() < f.Package {
			out = append(out, cg)
		}
	}
	f.Comments = out
}

func calleeObj(info *types.Info, call *ast.CallExpr) types.Object {
	fun := ast.Unparen(call.Fun)
	switch e := fun.(type) {
	case *ast.IndexExpr:
		fun = e.X
	case *ast.IndexListExpr:
		fun = e.X
	}
	switch e := fun.(type) {
	case *ast.Ident:
		return info.Uses[e]
	case *ast.SelectorExpr:
		return info.Uses[e.Sel]
	}
	return nil
}

type rewriter struct {
	info      *types.Info
	file      *ast.File
	rel       string
	goStarted map[types.Object]bool
	changed   bool
	itCtr     int
}

func (r *rewriter) site(pos token.Pos, op string) string {
	p := fset.Position(pos)
	return r.rel + ":" + strconv.Itoa(p.Line) + ":" + op
}

func simrtCall(fn string, args ...ast.Expr) *ast.CallExpr {
	return &ast.CallExpr{Fun: &ast.SelectorExpr{X: ast.NewIdent("simrt"), Sel: ast.NewIdent(fn)}, Args: args}
}

func strLit(s string) ast.Expr {
	return &ast.BasicLit{Kind: token.STRING, Value: strconv.Quote(s)}
}

func yieldStmt(site string) ast.Stmt {
	return &ast.ExprStmt{X: simrtCall("Yield", strLit(site))}
}

func isMapType(t types.Type) bool {
	if t == nil {
		return false
	}
	if tp, ok := types.Unalias(t).(*types.TypeParam); ok {
		iface, ok := tp.Constraint().Underlying().(*types.Interface)
		if !ok {
			return false
		}
		found := false
		all := true
		for i := 0; i < iface.NumEmbeddeds(); i++ {
			switch e := iface.EmbeddedType(i).(type) {
			case *types.Union:
				for j := 0; j < e.Len(); j++ {
					if _, ok := e.Term(j).Type().Underlying().(*types.Map); ok {
						found = true
					} else {
						all = false
					}
				}
			default:
				if _, ok := e.Underlying().(*types.Map); ok {
					found = true
				}
			}
		}
		return found && all
	}
	_, ok := t.Underlying().(*types.Map)
	return ok
}

func isChanType(t types.Type) bool {
	if t == nil {
		return false
	}
	_, ok := t.Underlying().(*types.Chan)
	return ok
}

var ioPkgs = map[string]bool{
	"database/sql": true, "os": true, "log": true, "net": true, "net/http": true, "io/ioutil": true, "os/exec": true,
}
var timeFuncs = map[string]bool{"Sleep": true, "After": true, "Tick": true, "NewTimer": true, "NewTicker": true, "AfterFunc": true}

const gpkgPath = "github.com/go-spatial/geom/encoding/gpkg"

// syncOp classifies a call; "" if it is not a scheduling point.
func (r *rewriter) callOp(call *ast.CallExpr) string {
	if id, ok := ast.Unparen(call.Fun).(*ast.Ident); ok && id.Name == "close" {
		if _, isBuiltin := r.info.Uses[id].(*types.Builtin); isBuiltin {
			return "close"
		}
	}
	obj := calleeObj(r.info, call)
	fn, ok := obj.(*types.Func)
	if !ok || fn.Pkg() == nil {
		return ""
	}
	pkg := fn.Pkg().Path()
	sig, _ := fn.Type().(*types.Signature)
	recvName := ""
	if sig != nil && sig.Recv() != nil {
		t := sig.Recv().Type()
		if p, ok := t.(*types.Pointer); ok {
			t = p.Elem()
		}
		if n, ok := types.Unalias(t).(*types.Named); ok {
			recvName = n.Obj().Name()
		}
	}
	switch {
	case pkg == "sync" && recvName != "":
		if (recvName == "Mutex" || recvName == "RWMutex") && (fn.Name() == "Lock" || fn.Name() == "RLock") {
			return "" // rewritten to simrt.Lock, which yields itself
		}
		if recvName == "Mutex" || recvName == "RWMutex" || recvName == "Pool" || recvName == "Map" {
			return ""
		}
		return "sync." + recvName + "." + fn.Name()
	case pkg == "reflect" && recvName == "" && fn.Name() == "Select":
		return "reflect.Select"
	case pkg == "runtime" && recvName == "" && fn.Name() == "Gosched":
		// the body of a spin-wait: a poller, eligible again only after something changed
		return "runtime.Gosched:blocked"
	case pkg == "time" && recvName == "" && timeFuncs[fn.Name()]:
		return "time." + fn.Name()
	case ioPkgs[pkg]:
		if pkg == "os" && recvName == "" {
			switch fn.Name() {
			case "IsNotExist", "IsExist", "Getenv", "LookupEnv", "Exit":
				return ""
			}
		}
		if recvName != "" {
			return "io:" + recvName + "." + fn.Name()
		}
		return "io:" + fn.Pkg().Name() + "." + fn.Name()
	case pkg == gpkgPath:
		if recvName == "Handle" || fn.Name() == "Open" {
			return "io:gpkg." + fn.Name()
		}
	}
	// a function value handed to code outside the module (errgroup.Go, time.AfterFunc,
	// sync.Once.Do, a worker pool): it may be started as a goroutine there, so the call is
	// treated like a `go` statement — at most one such spawn per scheduling step
	if !strings.HasPrefix(pkg, inv.Module) && r.hasFuncArg(call) {
		if recvName != "" {
			return "spawn?:" + recvName + "." + fn.Name()
		}
		return "spawn?:" + fn.Pkg().Name() + "." + fn.Name()
	}
	return ""
}

var noSpawnPkgs = map[string]bool{"sort": true, "slices": true, "strings": true, "bytes": true, "fmt": true, "golang.org/x/exp/slices": true,
	"golang.org/x/exp/maps": true, "maps": true, "testing": true, "flag": true, "regexp": true, "text/template": true}

func (r *rewriter) hasFuncArg(call *ast.CallExpr) bool {
	if fn, ok := calleeObj(r.info, call).(*types.Func); ok && fn.Pkg() != nil {
		p := fn.Pkg().Path()
		if noSpawnPkgs[p] || strings.HasPrefix(p, "github.com/tobshub/go-sortedmap") || strings.HasPrefix(p, "github.com/wk8/go-ordered-map") ||
			strings.HasPrefix(p, "github.com/urfave/cli") || strings.HasPrefix(p, "github.com/stretchr/testify") {
			return false
		}
	}
	for _, a := range call.Args {
		if _, ok := ast.Unparen(a).(*ast.FuncLit); ok {
			return true
		}
		if t := r.info.TypeOf(a); t != nil {
			if _, ok := t.Underlying().(*types.Signature); ok {
				return true
			}
		}
	}
	return false
}

// shallowOp finds the first scheduling point among the expressions that belong to the
// statement itself (not to nested blocks or function literals).
func (r *rewriter) shallowOp(s ast.Stmt) (op string, bad string) {
	var exprs []ast.Node
	switch s := s.(type) {
	case *ast.LabeledStmt:
		return r.shallowOp(s.Stmt)
	case *ast.GoStmt:
		return "go", ""
	case *ast.SelectStmt:
		return "select", ""
	case *ast.SendStmt:
		return "send", ""
	case *ast.ExprStmt, *ast.AssignStmt, *ast.ReturnStmt, *ast.DeferStmt, *ast.DeclStmt, *ast.IncDecStmt:
		exprs = append(exprs, s)
	case *ast.IfStmt:
		for cur := s; cur != nil; {
			if cur.Init != nil {
				exprs = append(exprs, cur.Init)
			}
			exprs = append(exprs, cur.Cond)
			next, _ := cur.Else.(*ast.IfStmt)
			cur = next
		}
	case *ast.SwitchStmt:
		if s.Init != nil {
			exprs = append(exprs, s.Init)
		}
		if s.Tag != nil {
			exprs = append(exprs, s.Tag)
		}
	case *ast.TypeSwitchStmt:
		if s.Init != nil {
			exprs = append(exprs, s.Init)
		}
		exprs = append(exprs, s.Assign)
	case *ast.ForStmt:
		if s.Init != nil {
			exprs = append(exprs, s.Init)
		}
		for _, n := range []ast.Node{s.Cond, s.Post} {
			if n == nil {
				continue
			}
			if o := r.firstOp(n); o != "" {
				// scheduling point in the loop condition / post statement: yield before the
				// loop and at the top of every iteration (a coarser but faithful placement)
				site := r.site(s.Body.Lbrace, "for-cond:"+o)
				if !(len(s.Body.List) > 0 && isSimrtStmt(s.Body.List[0])) {
					s.Body.List = append([]ast.Stmt{yieldStmt(site)}, s.Body.List...)
					inv.YieldSites = append(inv.YieldSites, site)
					inv.Approximated = append(inv.Approximated, site)
				}
				return "for-cond:" + o, ""
			}
		}
	case *ast.RangeStmt:
		if isChanType(r.info.TypeOf(s.X)) {
			return "range-chan", ""
		}
		exprs = append(exprs, s.X)
	default:
		return "", ""
	}
	for _, e := range exprs {
		if o := r.firstOp(e); o != "" {
			return o, bad
		}
	}
	return "", bad
}

func (r *rewriter) firstOp(n ast.Node) string {
	if n == nil {
		return ""
	}
	if e, ok := n.(ast.Expr); ok && e == nil {
		return ""
	}
	op := ""
	ast.Inspect(n, func(n ast.Node) bool {
		if op != "" {
			return false
		}
		switch n := n.(type) {
		case *ast.FuncLit:
			return false
		case *ast.SendStmt:
			op = "send"
		case *ast.UnaryExpr:
			if n.Op == token.ARROW {
				op = "recv"
			}
		case *ast.CallExpr:
			if o := r.callOp(n); o != "" {
				op = o
			}
		}
		return op == ""
	})
	return op
}

func (r *rewriter) run() {
	// top of go-started function declarations
	for _, d := range r.file.Decls {
		fd, ok := d.(*ast.FuncDecl)
		if !ok || fd.Body == nil {
			continue
		}
		if r.goStarted[r.info.Defs[fd.Name]] {
			s := r.site(fd.Body.Lbrace, "gostart")
			fd.Body.List = append([]ast.Stmt{yieldStmt(s)}, fd.Body.List...)
			inv.GoStarts = append(inv.GoStarts, s)
			r.changed = true
		}
	}
	astutil.Apply(r.file, r.pre, r.post)
	r.packageLevelChannels()
}

// packageLevelChannels: a channel made by a package-level initialiser exists before any
// bubble does; blocking on it is no durable block for synctest and the simulation could
// never go quiet. Every package-level `var x = <expr containing make(chan ...)>` therefore
// gets an init function that registers `x = <expr>` with simrt; the engines run the
// registered assignments once inside their bubble before any code under test runs (no
// bubble, no re-assignment: free-running passes keep the original value).
func (r *rewriter) packageLevelChannels() {
	var inits []ast.Stmt
	for _, d := range r.file.Decls {
		gd, ok := d.(*ast.GenDecl)
		if !ok || gd.Tok != token.VAR {
			continue
		}
		for _, sp := range gd.Specs {
			vs, ok := sp.(*ast.ValueSpec)
			if !ok || len(vs.Values) != len(vs.Names) {
				continue
			}
			for i, v := range vs.Values {
				if vs.Names[i].Name == "_" || !containsMakeChan(r.info, v) {
					continue
				}
				site := r.site(v.Pos(), "package-level-channel")
				inv.GoStarts = append(inv.GoStarts, site)
				assign := &ast.AssignStmt{Lhs: []ast.Expr{ast.NewIdent(vs.Names[i].Name)}, Tok: token.ASSIGN, Rhs: []ast.Expr{v}}
				inits = append(inits, &ast.ExprStmt{X: simrtCall("RegisterBubbleInit", strLit(site),
					&ast.FuncLit{Type: &ast.FuncType{Params: &ast.FieldList{}}, Body: &ast.BlockStmt{List: []ast.Stmt{assign}}})})
			}
		}
	}
	if len(inits) == 0 {
		return
	}
	r.file.Decls = append(r.file.Decls, &ast.FuncDecl{Name: ast.NewIdent("init"), Type: &ast.FuncType{Params: &ast.FieldList{}}, Body: &ast.BlockStmt{List: inits}})
	r.changed = true
}

func containsMakeChan(info *types.Info, e ast.Expr) bool {
	found := false
	ast.Inspect(e, func(n ast.Node) bool {
		if _, ok := n.(*ast.FuncLit); ok {
			return false
		}
		if call, ok := n.(*ast.CallExpr); ok {
			if id, ok := ast.Unparen(call.Fun).(*ast.Ident); ok && id.Name == "make" && len(call.Args) > 0 {
				if t := info.TypeOf(call.Args[0]); t != nil {
					if _, ok := t.Underlying().(*types.Chan); ok {
						found = true
					}
				}
			}
		}
		return !found
	})
	return found
}

func (r *rewriter) pre(c *astutil.Cursor) bool {
	n := c.Node()
	switch n := n.(type) {
	case *ast.GoStmt:
		if fl, ok := ast.Unparen(n.Call.Fun).(*ast.FuncLit); ok {
			s := r.site(fl.Body.Lbrace, "gostart")
			fl.Body.List = append([]ast.Stmt{yieldStmt(s)}, fl.Body.List...)
			inv.GoStarts = append(inv.GoStarts, s)
			r.changed = true
		}
	case *ast.CallExpr:
		r.rewriteCall(c, n)
		if op := r.callOp(n); strings.HasPrefix(op, "spawn?:") || op == "time.AfterFunc" {
			for _, a := range n.Args {
				if fl, ok := ast.Unparen(a).(*ast.FuncLit); ok && !(len(fl.Body.List) > 0 && isSimrtStmt(fl.Body.List[0])) {
					s := r.site(fl.Body.Lbrace, "gostart?")
					fl.Body.List = append([]ast.Stmt{yieldStmt(s)}, fl.Body.List...)
					inv.GoStarts = append(inv.GoStarts, s)
					r.changed = true
				}
			}
			// every function value handed over is wrapped, so that a goroutine it is started on
			// later gets an identity derived from this call (simrt.Spawned)
			for i, a := range n.Args {
				_, lit := ast.Unparen(a).(*ast.FuncLit)
				if !lit {
					t := r.info.TypeOf(a)
					if t == nil {
						continue
					}
					if _, ok := t.Underlying().(*types.Signature); !ok {
						continue
					}
				}
				s := r.site(a.Pos(), "spawned")
				n.Args[i] = simrtCall("Spawned", strLit(s), a)
				inv.GoStarts = append(inv.GoStarts, s)
				r.changed = true
			}
		}
	}
	// T2: statements that sit in a statement list
	if st, ok := n.(ast.Stmt); ok && c.Index() >= 0 {
		switch c.Parent().(type) {
		case *ast.BlockStmt, *ast.CaseClause, *ast.CommClause:
			op, bad := r.shallowOp(st)
			if bad != "" {
				inv.Unsupported = append(inv.Unsupported, bad)
			}
			if op != "" && !isSimrtStmt(st) {
				s := r.site(st.Pos(), op)
				c.InsertBefore(yieldStmt(s))
				inv.YieldSites = append(inv.YieldSites, s)
				r.changed = true
				if op == "select" {
					if sel, ok := st.(*ast.SelectStmt); ok && len(sel.Body.List) > 1 {
						inv.Uncontrolled = append(inv.Uncontrolled, r.site(st.Pos(), "select-with-several-cases"))
					}
				}
			}
		}
	} else if st, ok := n.(ast.Stmt); ok {
		// a statement outside a list (e.g. `if x { ... } else <stmt>`, labelled statement body):
		// labelled statements are handled through their parent; anything else with a sync op is unsupported
		switch c.Parent().(type) {
		case *ast.LabeledStmt, *ast.IfStmt, *ast.ForStmt, *ast.SwitchStmt, *ast.TypeSwitchStmt, *ast.CommClause,
			*ast.RangeStmt, *ast.SelectStmt, *ast.FuncDecl, *ast.FuncLit:
		default:
			if op, _ := r.shallowOp(st); op != "" {
				inv.Unsupported = append(inv.Unsupported, r.site(st.Pos(), "sync-op-outside-statement-list:"+op))
			}
		}
	}
	return true
}

func isSimrtStmt(s ast.Stmt) bool {
	es, ok := s.(*ast.ExprStmt)
	if !ok {
		return false
	}
	call, ok := es.X.(*ast.CallExpr)
	if !ok {
		return false
	}
	sel, ok := call.Fun.(*ast.SelectorExpr)
	if !ok {
		return false
	}
	id, ok := sel.X.(*ast.Ident)
	return ok && id.Name == "simrt"
}

func (r *rewriter) post(c *astutil.Cursor) bool {
	rs, ok := c.Node().(*ast.RangeStmt)
	if !ok {
		return true
	}
	t := r.info.TypeOf(rs.X)
	if isChanType(t) {
		s := r.site(rs.Body.Lbrace, "range-chan-body")
		rs.Body.List = append([]ast.Stmt{yieldStmt(s)}, rs.Body.List...)
		inv.YieldSites = append(inv.YieldSites, s)
		r.changed = true
		return true
	}
	if !isMapType(t) {
		return true
	}
	site := r.site(rs.Pos(), "range")
	inv.MapSites = append(inv.MapSites, site)
	r.itCtr++
	it := ast.NewIdent("simIt" + strconv.Itoa(r.itCtr))
	isBlank := func(e ast.Expr) bool {
		if e == nil {
			return true
		}
		id, ok := e.(*ast.Ident)
		return ok && id.Name == "_"
	}
	addr := func(e ast.Expr) ast.Expr {
		if isBlank(e) {
			return ast.NewIdent("nil")
		}
		return &ast.UnaryExpr{Op: token.AND, X: e}
	}
	var init *ast.AssignStmt
	siteArg := strLit(site)
	kBlank, vBlank := isBlank(rs.Key), isBlank(rs.Value)
	switch {
	case rs.Tok == token.DEFINE && !vBlank:
		k := rs.Key
		if kBlank {
			k = ast.NewIdent("_")
		}
		init = &ast.AssignStmt{Lhs: []ast.Expr{it, k, rs.Value}, Tok: token.DEFINE, Rhs: []ast.Expr{simrtCall("Range3", siteArg, rs.X)}}
	case rs.Tok == token.DEFINE && !kBlank:
		init = &ast.AssignStmt{Lhs: []ast.Expr{it, rs.Key}, Tok: token.DEFINE, Rhs: []ast.Expr{simrtCall("Range2", siteArg, rs.X)}}
	default:
		init = &ast.AssignStmt{Lhs: []ast.Expr{it}, Tok: token.DEFINE, Rhs: []ast.Expr{simrtCall("Range1", siteArg, rs.X)}}
	}
	cond := &ast.CallExpr{Fun: &ast.SelectorExpr{X: it, Sel: ast.NewIdent("Next")}, Args: []ast.Expr{addr(rs.Key), addr(rs.Value)}}
	c.Replace(&ast.ForStmt{For: rs.For, Init: init, Cond: cond, Body: rs.Body})
	r.changed = true
	return true
}

// recvNamed: name of the receiver's named type ("" for functions).
func recvNamed(fn *types.Func) string {
	sig, _ := fn.Type().(*types.Signature)
	if sig == nil || sig.Recv() == nil {
		return ""
	}
	t := sig.Recv().Type()
	if p, ok := t.(*types.Pointer); ok {
		t = p.Elem()
	}
	if n, ok := types.Unalias(t).(*types.Named); ok {
		return n.Obj().Name()
	}
	return ""
}

// addrOfNamed: the sync.<want> value the method is called on, as a pointer: x if x is a
// *sync.<want>, &x if it is a sync.<want>, &x.<want> if the method is promoted from an
// embedded field.
func (r *rewriter) addrOfNamed(x ast.Expr, want string) ast.Expr {
	t := r.info.TypeOf(x)
	isPtr := false
	if t != nil {
		if p, ok := types.Unalias(t).(*types.Pointer); ok {
			isPtr, t = true, p.Elem()
		}
		if n, ok := types.Unalias(t).(*types.Named); ok && n.Obj().Name() == want && n.Obj().Pkg() != nil && n.Obj().Pkg().Path() == "sync" {
			if isPtr {
				return x
			}
			return &ast.UnaryExpr{Op: token.AND, X: x}
		}
	}
	return &ast.UnaryExpr{Op: token.AND, X: &ast.SelectorExpr{X: x, Sel: ast.NewIdent(want)}}
}

func (r *rewriter) rewriteCall(c *astutil.Cursor, call *ast.CallExpr) {
	obj := calleeObj(r.info, call)
	fn, ok := obj.(*types.Func)
	if !ok || fn.Pkg() == nil {
		return
	}
	pkg := fn.Pkg().Path()
	switch {
	case (pkg == "golang.org/x/exp/maps") && (fn.Name() == "Keys" || fn.Name() == "Values"):
		if _, plain := ast.Unparen(call.Fun).(*ast.SelectorExpr); !plain {
			inv.Unsupported = append(inv.Unsupported, r.site(call.Pos(), "maps."+fn.Name()+"-with-explicit-instantiation"))
			return
		}
		site := r.site(call.Pos(), "maps."+fn.Name())
		inv.KeysSites = append(inv.KeysSites, site)
		call.Fun = &ast.SelectorExpr{X: ast.NewIdent("simrt"), Sel: ast.NewIdent(fn.Name())}
		call.Args = append([]ast.Expr{strLit(site)}, call.Args...)
		r.changed = true
	case pkg == "maps" && (fn.Name() == "Keys" || fn.Name() == "Values" || fn.Name() == "All"):
		inv.Uncontrolled = append(inv.Uncontrolled, r.site(call.Pos(), "std-maps."+fn.Name()))
	case pkg == "runtime" && recvNamed(fn) == "" && (fn.Name() == "NumCPU" || fn.Name() == "GOMAXPROCS" || fn.Name() == "ReadMemStats"):
		site := r.site(call.Pos(), "runtime."+fn.Name())
		inv.ClockSites = append(inv.ClockSites, site)
		call.Fun = &ast.SelectorExpr{X: ast.NewIdent("simrt"), Sel: ast.NewIdent(fn.Name())}
		call.Args = append([]ast.Expr{strLit(site)}, call.Args...)
		r.changed = true
	case pkg == "reflect" && fn.Name() == "Select" && recvNamed(fn) == "":
		site := r.site(call.Pos(), "reflect.Select")
		inv.YieldSites = append(inv.YieldSites, site)
		call.Fun = &ast.SelectorExpr{X: ast.NewIdent("simrt"), Sel: ast.NewIdent("ReflectSelect")}
		call.Args = append([]ast.Expr{strLit(site)}, call.Args...)
		r.changed = true
	case pkg == "math/rand" || pkg == "math/rand/v2" || pkg == "crypto/rand":
		inv.Uncontrolled = append(inv.Uncontrolled, r.site(call.Pos(), pkg+"."+fn.Name()))
	case pkg == "time" && (fn.Name() == "Now" || fn.Name() == "Since") && recvNamed(fn) == "":
		// inside a bubble this is the fake clock; outside (snapsim) the engine can freeze it
		// or let it race (simrt.SetClock)
		site := r.site(call.Pos(), "time."+fn.Name())
		inv.ClockSites = append(inv.ClockSites, site)
		call.Fun = &ast.SelectorExpr{X: ast.NewIdent("simrt"), Sel: ast.NewIdent(fn.Name())}
		call.Args = append([]ast.Expr{strLit(site)}, call.Args...)
		r.changed = true
	case pkg == "sync" && (fn.Name() == "Wait" || fn.Name() == "Signal" || fn.Name() == "Broadcast") && recvNamed(fn) == "Cond":
		sel, ok := ast.Unparen(call.Fun).(*ast.SelectorExpr)
		if !ok {
			return
		}
		site := r.site(call.Pos(), "cond."+fn.Name())
		inv.MutexSites = append(inv.MutexSites, site)
		call.Fun = &ast.SelectorExpr{X: ast.NewIdent("simrt"), Sel: ast.NewIdent("Cond" + fn.Name())}
		call.Args = []ast.Expr{strLit(site), r.addrOfNamed(sel.X, "Cond")}
		r.changed = true
	case pkg == "sync" && fn.Name() == "Lock" && recvNamed(fn) == "Locker":
		sel, ok := ast.Unparen(call.Fun).(*ast.SelectorExpr)
		if !ok {
			return
		}
		site := r.site(call.Pos(), "locker.Lock")
		inv.MutexSites = append(inv.MutexSites, site)
		call.Fun = &ast.SelectorExpr{X: ast.NewIdent("simrt"), Sel: ast.NewIdent("LockLocker")}
		call.Args = []ast.Expr{strLit(site), sel.X}
		r.changed = true
	case pkg == "sync" && (fn.Name() == "Lock" || fn.Name() == "RLock"):
		sig, _ := fn.Type().(*types.Signature)
		if sig == nil || sig.Recv() == nil {
			return
		}
		t := sig.Recv().Type()
		if p, ok := t.(*types.Pointer); ok {
			t = p.Elem()
		}
		n, ok := types.Unalias(t).(*types.Named)
		if !ok || (n.Obj().Name() != "Mutex" && n.Obj().Name() != "RWMutex") {
			return
		}
		sel, ok := ast.Unparen(call.Fun).(*ast.SelectorExpr)
		if !ok {
			return
		}
		if _, isStmt := c.Parent().(*ast.ExprStmt); !isStmt {
			inv.Unsupported = append(inv.Unsupported, r.site(call.Pos(), "mutex-lock-not-a-statement"))
			return
		}
		if n.Obj().Name() == "RWMutex" {
			// writer preference needs the identity of the mutex: simrt.RWLock(site, &mu, write)
			site := r.site(call.Pos(), "rwmutex."+fn.Name())
			inv.MutexSites = append(inv.MutexSites, site)
			write := "false"
			if fn.Name() == "Lock" {
				write = "true"
			}
			call.Fun = &ast.SelectorExpr{X: ast.NewIdent("simrt"), Sel: ast.NewIdent("RWLock")}
			call.Args = []ast.Expr{strLit(site), r.addrOfNamed(sel.X, "RWMutex"), ast.NewIdent(write)}
			r.changed = true
			return
		}
		try := "TryLock"
		if fn.Name() == "RLock" {
			try = "TryRLock"
		}
		site := r.site(call.Pos(), "mutex."+fn.Name())
		inv.MutexSites = append(inv.MutexSites, site)
		recv := sel.X
		call.Fun = &ast.SelectorExpr{X: ast.NewIdent("simrt"), Sel: ast.NewIdent("Lock")}
		call.Args = []ast.Expr{strLit(site),
			&ast.SelectorExpr{X: recv, Sel: ast.NewIdent(try)},
			&ast.SelectorExpr{X: recv, Sel: ast.NewIdent(fn.Name())}}
		r.changed = true
	}
}
