package main

import (
	"fmt"
	"go/ast"
	"go/format"
	"go/token"
	"go/types"
	"os"
	"sort"
	"strings"

	"golang.org/x/tools/go/packages"
)

// Pass C: select statements with two or more communication cases.
//
// Which ready case Go's select takes is the runtime's private coin, so such a statement
// would make runs irreproducible. It is rewritten — on the source text, after passes A/B —
// into a form in which the simulator decides the order in which the cases are tried:
//
//	if !simrt.Active() {
//		<the original select>
//	} else {
//		simCh1_0 := a                      // channels and send values, evaluated once, in source order
//		simCh1_1 := b
//		simVal1_1 := x
//		simRecv1_0 := simrt.ZeroOf(simCh1_0)
//		simOK1_0 := false
//		switch simrt.Select(SITE, block /* a blocking select over the same cases, nil if there is a default */,
//			func() bool { select { case simRecv1_0, simOK1_0 = <-simCh1_0: return true; default: return false } },
//			func() bool { select { case simCh1_1 <- simVal1_1: return true; default: return false } }) {
//		case 0:
//			v, ok := simRecv1_0, simOK1_0
//			<body of case 0>
//		case 1:
//			<body of case 1>
//		default:
//			<body of the default case>
//		}
//	}
//
// simrt.Select tries the cases in an order derived from the run's seed (so the choice among
// several READY cases is the simulator's) and, when none is ready and there is no default,
// blocks in a real select over the same cases, as the original would. `break` inside a body leaves the switch exactly as it
// left the select. Labelled selects, selects whose bodies contain labels, and selects that
// contain another rewritten select are left alone and stay in `uncontrolled_sources`.
func selectPass(rootDir string) {
	cfg := &packages.Config{
		Mode: packages.NeedName | packages.NeedFiles | packages.NeedSyntax | packages.NeedTypes |
			packages.NeedTypesInfo | packages.NeedImports | packages.NeedModule | packages.NeedCompiledGoFiles,
		Dir: rootDir,
	}
	pkgs, err := packages.Load(cfg, "./...")
	if err != nil {
		fail("select pass: load: %v", err)
	}
	if packages.PrintErrors(pkgs) > 0 {
		fail("select pass: the instrumented copy does not type-check")
	}
	controlled := map[string]bool{}
	counter := 0
	for _, p := range pkgs {
		if isOverlayPkg(p.PkgPath) {
			continue
		}
		for i, f := range p.Syntax {
			fn := p.CompiledGoFiles[i]
			if strings.HasSuffix(fn, "_test.go") || !strings.HasPrefix(fn, rootDir) {
				continue
			}
			src, err := os.ReadFile(fn)
			if err != nil {
				fail("%v", err)
			}
			type repl struct {
				start, end int
				text       string
			}
			var repls []repl
			// candidates, innermost first
			var sels []*ast.SelectStmt
			labelled := map[*ast.SelectStmt]bool{}
			ast.Inspect(f, func(n ast.Node) bool {
				switch n := n.(type) {
				case *ast.LabeledStmt:
					if s, ok := n.Stmt.(*ast.SelectStmt); ok {
						labelled[s] = true
					}
				case *ast.SelectStmt:
					sels = append(sels, n)
				}
				return true
			})
			taken := map[*ast.SelectStmt]bool{}
			for _, sel := range sels {
				if !qualifies(sel, labelled) {
					continue
				}
				// does it contain another qualifying select?
				inner := false
				ast.Inspect(sel.Body, func(n ast.Node) bool {
					if s, ok := n.(*ast.SelectStmt); ok && s != sel && qualifies(s, labelled) {
						inner = true
					}
					return !inner
				})
				if inner {
					continue
				}
				counter++
				text, ok := buildSelect(p.Fset, p.TypesInfo, src, sel, counter, p.Fset.Position(sel.Pos()))
				if !ok {
					continue
				}
				taken[sel] = true
				repls = append(repls, repl{p.Fset.Position(sel.Pos()).Offset, p.Fset.Position(sel.End()).Offset, text})
			}
			if len(repls) == 0 {
				continue
			}
			sort.Slice(repls, func(i, j int) bool { return repls[i].start > repls[j].start })
			out := string(src)
			for _, r := range repls {
				out = out[:r.start] + r.text + out[r.end:]
			}
			formatted, err := format.Source([]byte(out))
			if err != nil {
				fail("select pass: %s does not parse after the rewrite: %v", fn, err)
			}
			if err := os.WriteFile(fn, formatted, 0o644); err != nil {
				fail("%v", err)
			}
			for sel := range taken {
				_ = sel
			}
			inv.SelectSites += len(repls)
		}
	}
	_ = controlled
}

func qualifies(sel *ast.SelectStmt, labelled map[*ast.SelectStmt]bool) bool {
	if labelled[sel] {
		return false
	}
	comm := 0
	for _, c := range sel.Body.List {
		cc := c.(*ast.CommClause)
		if cc.Comm != nil {
			comm++
		}
		bad := false
		for _, st := range cc.Body {
			ast.Inspect(st, func(n ast.Node) bool {
				switch n.(type) {
				case *ast.LabeledStmt:
					bad = true
				case *ast.FuncLit:
					return false
				}
				return !bad
			})
		}
		if bad {
			return false
		}
	}
	return comm >= 2
}

func buildSelect(fset *token.FileSet, info *types.Info, src []byte, sel *ast.SelectStmt, n int, pos token.Position) (string, bool) {
	text := func(node ast.Node) string {
		return string(src[fset.Position(node.Pos()).Offset:fset.Position(node.End()).Offset])
	}
	// the site string is the one of the yield simgen put before the statement, if any
	site := fmt.Sprintf("select@%d", n)
	var pre, tries, cases, blockCases []string
	hasDefault := false
	defaultBody := ""
	idx := 0
	for ci, c := range sel.Body.List {
		cc := c.(*ast.CommClause)
		// body text: from the colon to the start of the next clause (or the closing brace)
		bodyStart := fset.Position(cc.Colon).Offset + 1
		var bodyEnd int
		if ci+1 < len(sel.Body.List) {
			bodyEnd = fset.Position(sel.Body.List[ci+1].Pos()).Offset
		} else {
			bodyEnd = fset.Position(sel.Body.Rbrace).Offset
		}
		body := string(src[bodyStart:bodyEnd])
		if cc.Comm == nil {
			hasDefault = true
			defaultBody = body
			continue
		}
		ch := fmt.Sprintf("simCh%d_%d", n, idx)
		switch comm := cc.Comm.(type) {
		case *ast.SendStmt:
			pre = append(pre, fmt.Sprintf("%s := %s", ch, text(comm.Chan)))
			val := text(comm.Value)
			if tv, ok := info.Types[comm.Value]; !ok || tv.Value == nil {
				v := fmt.Sprintf("simVal%d_%d", n, idx)
				pre = append(pre, fmt.Sprintf("%s := %s", v, val))
				val = v
			}
			tries = append(tries, fmt.Sprintf("func() bool { select { case %s <- %s: return true; default: return false } }", ch, val))
			blockCases = append(blockCases, fmt.Sprintf("case %s <- %s: return %d", ch, val, idx))
			cases = append(cases, fmt.Sprintf("case %d:\n%s", idx, body))
		case *ast.ExprStmt:
			u, ok := ast.Unparen(comm.X).(*ast.UnaryExpr)
			if !ok || u.Op != token.ARROW {
				return "", false
			}
			pre = append(pre, fmt.Sprintf("%s := %s", ch, text(u.X)))
			tries = append(tries, fmt.Sprintf("func() bool { select { case <-%s: return true; default: return false } }", ch))
			blockCases = append(blockCases, fmt.Sprintf("case <-%s: return %d", ch, idx))
			cases = append(cases, fmt.Sprintf("case %d:\n%s", idx, body))
		case *ast.AssignStmt:
			if len(comm.Rhs) != 1 {
				return "", false
			}
			u, ok := ast.Unparen(comm.Rhs[0]).(*ast.UnaryExpr)
			if !ok || u.Op != token.ARROW {
				return "", false
			}
			ct, ok := info.TypeOf(u.X).Underlying().(*types.Chan)
			if !ok {
				return "", false
			}
			zero := "simrt.ZeroOf"
			if ct.Dir() == types.RecvOnly {
				zero = "simrt.ZeroOfRecv"
			}
			recv, okv := fmt.Sprintf("simRecv%d_%d", n, idx), fmt.Sprintf("simOK%d_%d", n, idx)
			pre = append(pre, fmt.Sprintf("%s := %s", ch, text(u.X)))
			pre = append(pre, fmt.Sprintf("%s := %s(%s)", recv, zero, ch))
			var lhs []string
			for _, l := range comm.Lhs {
				lhs = append(lhs, text(l))
			}
			tok := comm.Tok.String() // := or =
			if len(comm.Lhs) == 2 {
				pre = append(pre, fmt.Sprintf("%s := false", okv))
				tries = append(tries, fmt.Sprintf("func() bool { select { case %s, %s = <-%s: return true; default: return false } }", recv, okv, ch))
				blockCases = append(blockCases, fmt.Sprintf("case %s, %s = <-%s: return %d", recv, okv, ch, idx))
				cases = append(cases, fmt.Sprintf("case %d:\n%s, %s %s %s, %s\n%s", idx, lhs[0], lhs[1], tok, recv, okv, body))
			} else {
				tries = append(tries, fmt.Sprintf("func() bool { select { case %s = <-%s: return true; default: return false } }", recv, ch))
				blockCases = append(blockCases, fmt.Sprintf("case %s = <-%s: return %d", recv, ch, idx))
				cases = append(cases, fmt.Sprintf("case %d:\n%s %s %s\n%s", idx, lhs[0], tok, recv, body))
			}
		default:
			return "", false
		}
		idx++
	}
	var b strings.Builder
	b.WriteString("if !simrt.Active() {\n")
	b.WriteString(text(sel))
	b.WriteString("\n} else {\n")
	for _, p := range pre {
		b.WriteString(p + "\n")
	}
	// when no case is ready (and there is no default) the goroutine blocks in a real select
	// over the same channels, exactly as the original would: two selects must be able to
	// rendezvous on an unbuffered channel, which non-blocking attempts alone never do
	block := "nil"
	if !hasDefault {
		block = "func() int { select {\n" + strings.Join(blockCases, "\n") + "\n} }"
	}
	fmt.Fprintf(&b, "switch simrt.Select(%q, %s,\n%s) {\n", fmt.Sprintf("%s:%d:select", relOr(pos.Filename), pos.Line), block, strings.Join(tries, ",\n"))
	for _, c := range cases {
		b.WriteString(c + "\n")
	}
	if hasDefault {
		b.WriteString("default:\n" + defaultBody + "\n")
	} else {
		// keeps the statement a terminating one when every case ends in a return
		b.WriteString("default:\npanic(\"simrt: select without a chosen case\")\n")
	}
	b.WriteString("}\n}")
	_ = site
	return b.String(), true
}

func relOr(fn string) string { return rel(fn) }
