#!/bin/bash
# run-benign-reduced.sh <tier> : every benign patch against the two checks nearest to what it touches
TIER="${1:-quick}"
for p in /verif/benign/*.diff; do
  b=$(basename "$p")
  if grep -q '^+++ b/snap/\|^+++ b/pointindex/\|^+++ b/mapslicehelp/\|^+++ b/geomhelp/' "$p"; then props="C07 C13"
  elif grep -q '^+++ b/main.go\|^+++ b/processing/gpkg/' "$p"; then props="C13 C12"
  else props="C11 C10"; fi
  case "$b" in b9-*) props="C11 C13 C07" ;; esac
  for prop in $props; do
    out="$(/verif/tools/scripts/run-mutant.sh "$p" "$prop" "$TIER" 2>&1)"
    e="$(echo "$out" | grep -aE '^exit=' | tail -1)"
    v="$(echo "$out" | grep -aE '^VIOLATION|^violation class|^verif:|MUTANT-DOES' | head -2 | tr '\n' ' ' | cut -c1-300)"
    echo "$b $prop $e $v"
  done
done
