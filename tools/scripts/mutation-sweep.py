#!/usr/bin/env python3
"""mutation-sweep.py gen|filter|check ...

Systematic first-order mutants of the files the claimed properties are anchored in
(processing/processing.go, processing/gpkg/gpkg.go, main.go). A mutant is kept when it
compiles and the repository's own tests still pass ("realistic change that the tests do not
settle"); every kept mutant is then run against the checks named for its file. Survivors
are triaged by hand (equivalent / outside the property / blind spot) in
mutation-sweep/TRIAGE.md.

  gen    <outdir>            write one .diff per mutant into <outdir>/all/
  filter <outdir> [jobs]     build + repo tests per mutant; survivors are copied to <outdir>/kept/
  check  <outdir> [tier]     run the checks against every kept mutant, append to <outdir>/results.jsonl
"""
import difflib, json, os, re, shutil, subprocess, sys, tempfile
from concurrent.futures import ThreadPoolExecutor

REPO = os.environ.get("SWEEP_REPO", "/repo")
FILES = {
    "processing/processing.go": ["C11", "C10", "C13"],
    "processing/gpkg/gpkg.go": ["C12", "C13"],
    "main.go": ["C13"],
}
ENV = dict(os.environ, GOFLAGS="-mod=mod", GOPROXY="off", GOSUMDB="off", GOTOOLCHAIN="local")

SWAPS = [(" < ", " <= "), (" <= ", " < "), (" > ", " >= "), (" >= ", " > "), (" == ", " != "), (" != ", " == "),
         (" && ", " || "), (" || ", " && "), ("true", "false"), ("false", "true"),
         (" + 1", " + 0"), (" - 1", " - 0"), (" + 1", " + 2"), ("continue", "break"), ("break", "continue"),
         ("defer ", ""), ("if !", "if "), ("[1:]", "[0:]"), ("[:0]", "[:]"), (" += ", " = "), ("nil, nil", "nil, err")]


def simple_statement(line):
    t = line.strip()
    if not line.startswith("\t") or not t or t.startswith(("//", "}", "case ", "default:", "return", "var ", "type ", "func ", "import", "package", ")")):
        return False
    if t.endswith(("{", "(", ",")) or t.count("(") != t.count(")") or t.count("{") != t.count("}"):
        return False
    return True


def mutants_of(path):
    src = open(os.path.join(REPO, path)).read().split("\n")
    out = []
    in_func = False
    for i, line in enumerate(src):
        if line.startswith("func "):
            in_func = True
        if line.startswith("}"):
            in_func = False
        if not in_func or line.strip().startswith("//"):
            continue
        if simple_statement(line):
            out.append(("del", i, None))
        code = line.split("//")[0]
        for a, b in SWAPS:
            start = 0
            k = 0
            while True:
                j = code.find(a, start)
                if j < 0:
                    break
                if a in ("true", "false", "continue", "break") and re.search(r"\w", code[j - 1:j] + code[j + len(a):j + len(a) + 1]):
                    start = j + 1
                    continue
                out.append(("swap:%s->%s" % (a.strip(), b.strip() or "-"), i, (j, a, b)))
                start = j + len(a)
                k += 1
    return src, out


def gen(outdir):
    alld = os.path.join(outdir, "all")
    shutil.rmtree(alld, ignore_errors=True)
    os.makedirs(alld)
    n = 0
    for path in FILES:
        src, ms = mutants_of(path)
        for kind, i, arg in ms:
            new = list(src)
            if kind == "del":
                new[i] = re.match(r"\s*", src[i]).group(0) + "// (removed)"
                if "_ =" in src[i]:
                    continue
            else:
                j, a, b = arg
                new[i] = src[i][:j] + b + src[i][j + len(a):]
            diff = "".join(difflib.unified_diff([l + "\n" for l in src], [l + "\n" for l in new], "a/" + path, "b/" + path, n=3))
            tag = re.sub(r"[^A-Za-z0-9]+", "_", kind.replace("<", "lt").replace(">", "gt").replace("=", "eq").replace("!", "not").replace("&", "and").replace("|", "or").replace("+", "plus").replace("-", "minus"))
            name = "%s_L%03d_%s_%d.diff" % (path.replace("/", "_").replace(".go", ""), i + 1, tag.strip("_"), n)
            open(os.path.join(alld, name), "w").write(diff)
            n += 1
    print("generated", n, "mutants in", alld)


def passes_baseline(diff):
    d = tempfile.mkdtemp(prefix="sweep-", dir="/tmp")
    try:
        subprocess.run(["rsync", "-a", "--exclude", ".git", REPO + "/", d + "/"], check=True)
        if subprocess.run(["patch", "-p1", "-s", "-i", diff], cwd=d, capture_output=True).returncode != 0:
            return "patch-failed"
        if subprocess.run(["go", "build", "./..."], cwd=d, env=ENV, capture_output=True).returncode != 0:
            return "does-not-compile"
        if subprocess.run(["go", "vet", "./processing/...", "."], cwd=d, env=ENV, capture_output=True).returncode != 0:
            return "vet-fails"
        try:
            r = subprocess.run(["go", "test", "-count=1", "-timeout", "240s", "./..."], cwd=d, env=ENV, capture_output=True, timeout=400)
        except subprocess.TimeoutExpired:
            return "tests-hang"
        return "kept" if r.returncode == 0 else "tests-fail"
    finally:
        shutil.rmtree(d, ignore_errors=True)


def filt(outdir, jobs):
    alld, kept = os.path.join(outdir, "all"), os.path.join(outdir, "kept")
    os.makedirs(kept, exist_ok=True)
    names = sorted(os.listdir(alld))
    done = {}
    fl = os.path.join(outdir, "filter.jsonl")
    if os.path.exists(fl):
        for l in open(fl):
            o = json.loads(l)
            done[o["mutant"]] = o["verdict"]
    todo = [n for n in names if n not in done]
    with ThreadPoolExecutor(jobs) as ex, open(fl, "a") as f:
        for n, v in zip(todo, ex.map(lambda n: passes_baseline(os.path.join(alld, n)), todo)):
            f.write(json.dumps({"mutant": n, "verdict": v}) + "\n")
            f.flush()
            if v == "kept":
                shutil.copy(os.path.join(alld, n), kept)
            print(n, v, flush=True)


def check(outdir, tier):
    kept = os.path.join(outdir, "kept")
    res = os.path.join(outdir, "results.jsonl")
    done = set()
    if os.path.exists(res):
        done = {json.loads(l)["mutant"] for l in open(res)}
    for n in sorted(os.listdir(kept)):
        if n in done:
            continue
        path = next(p for p in FILES if n.startswith(p.replace("/", "_").replace(".go", "") + "_L"))
        rec = {"mutant": n, "file": path, "checks": {}}
        for prop in FILES[path]:
            r = subprocess.run(["/verif/tools/scripts/run-mutant.sh", os.path.join(kept, n), prop, tier], capture_output=True, text=True, errors="replace")
            out = r.stdout + r.stderr
            e = re.findall(r"^exit=(\d+)", out, re.M)
            cls = re.findall(r"^violation class: (.*)", out, re.M)
            rec["checks"][prop] = {"exit": e[-1] if e else "?", "class": cls[0] if cls else ""}
            if e and e[-1] == "1":
                break
            if not e:
                rec["checks"][prop]["tail"] = out[-400:]
        rec["caught"] = any(c["exit"] == "1" for c in rec["checks"].values())
        open(res, "a").write(json.dumps(rec) + "\n")
        print(n, rec["caught"], rec["checks"], flush=True)


if __name__ == "__main__":
    cmd, outdir = sys.argv[1], sys.argv[2]
    if cmd == "gen":
        gen(outdir)
    elif cmd == "filter":
        filt(outdir, int(sys.argv[3]) if len(sys.argv) > 3 else 4)
    elif cmd == "check":
        check(outdir, sys.argv[3] if len(sys.argv) > 3 else "quick")
