#!/bin/bash
# run-benign.sh <tier> <patch>... : every check must exit 0 on a benign refactoring
TIER="$1"; shift
for p in "$@"; do
  for prop in C11 C10 C12 C13 C07; do
    case "$(basename $p)" in
      b2[2-6]*) [ $prop != C07 -a $prop != C13 ] && continue ;;
      b[1-5]*|b10*|b21*) [ $prop = C07 ] && continue ;;
      b7*) [ $prop = C07 -o $prop = C10 -o $prop = C11 ] && continue ;;
      b8*) [ $prop != C13 ] && continue ;;
    esac
    out="$(/verif/tools/scripts/run-mutant.sh "$p" "$prop" "$TIER" 2>&1)"
    e="$(echo "$out" | grep -aE '^exit=' | tail -1)"
    v="$(echo "$out" | grep -aE '^VIOLATION|^violation class|^verif:|MUTANT-DOES' | head -2 | tr '\n' ' ' | cut -c1-300)"
    echo "$(basename $p) $prop $e $v"
  done
done
