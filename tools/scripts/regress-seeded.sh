#!/bin/bash
# regress-seeded.sh [tier] : every seeded change and catalogue mutant must be caught (exit 1),
# except those whose meta.json says why they are not (not_caught_reason). Log: /tmp/regress-seeded.log
TIER="${1:-quick}"
LOG=/tmp/regress-seeded.log; : > "$LOG"
for d in /verif/seeded/*/; do
  id=$(basename "$d"); prop=$(python3 -c "import json;print(json.load(open('$d/meta.json'))['breaks_property'])")
  /verif/tools/scripts/check-seeded.sh "$id" "$prop" "$TIER" >> "$LOG" 2>&1
done
for m in /verif/mutants/*.diff; do
  n=$(basename "$m"); prop=$(echo "$n" | cut -c1-3 | tr a-z A-Z)
  out="$(/verif/tools/scripts/run-mutant.sh "$m" "$prop" "$TIER" 2>&1)"
  e="$(echo "$out" | grep -aE '^exit=' | tail -1)"; c="$(echo "$out" | grep -aE '^violation class|MUTANT-DOES|PATCH-FAILED' | head -1)"
  echo "mutant $n $prop $e $c" >> "$LOG"
done
echo "--- not caught:"; grep -aE "^[cw][0-9a-z-]+ .*exit=[02]|^mutant .*exit=[02]" "$LOG" || echo none
echo "--- totals: $(grep -ac 'exit=1' $LOG) caught of $(grep -ac 'exit=' $LOG)"
