#!/bin/bash
# check-seeded.sh <id> <property> [tier] : run a check against the seeded change and record the outcome in meta.json
ID="$1"; PROP="$2"; TIER="${3:-quick}"
OUT=/verif/seeded/$ID
LOG="$OUT/check-$PROP-$TIER.log"
PATCH="$OUT/patch.diff"; [ -f "$OUT/patch.rebased.diff" ] && PATCH="$OUT/patch.rebased.diff"   # rebased onto the repaired /repo
/verif/tools/scripts/run-mutant.sh "$PATCH" "$PROP" "$TIER" > "$LOG" 2>&1
E=$(grep -aE '^exit=' "$LOG" | tail -1 | cut -d= -f2)
CLASS=$(grep -aE '^violation class:' "$LOG" | head -1 | sed 's/violation class: //')
python3 - "$OUT" "$PROP" "$TIER" "$E" "$CLASS" <<'PY'
import json,sys,os
out,prop,tier,e,cls=sys.argv[1:6]
p=os.path.join(out,"meta.json")
meta=json.load(open(p)) if os.path.exists(p) else {}
meta.setdefault("checks_run",{})[f"{prop} {tier}"]={"exit":e,"violation_class":cls,"caught":e=="1"}
json.dump(meta,open(p,"w"),indent=1)
PY
# keep the log short
tail -c 3000 "$LOG" > "$LOG.tmp" && mv "$LOG.tmp" "$LOG"
echo "$ID $PROP $TIER exit=$E class=$CLASS"
