#!/usr/bin/env python3
"""mkmutant.py <name> <file> <<< python snippet that transforms variable `s` (file text).
Writes /verif/mutants/<name>.diff (a git-style patch against /repo)."""
import sys, subprocess, tempfile, os, shutil
name, rel = sys.argv[1], sys.argv[2]
code = sys.stdin.read()
src = open(os.path.join('/repo', rel)).read()
env = {'s': src}
exec(code, env)
new = env['s']
if new == src:
    sys.exit('mutation did not change the file')
d = tempfile.mkdtemp()
try:
    a = os.path.join(d, 'a', rel); b = os.path.join(d, 'b', rel)
    os.makedirs(os.path.dirname(a)); os.makedirs(os.path.dirname(b))
    open(a, 'w').write(src); open(b, 'w').write(new)
    r = subprocess.run(['diff', '-u', '--label', 'a/' + rel, '--label', 'b/' + rel, a, b], capture_output=True, text=True)
    open(f'/verif/mutants/{name}.diff', 'w').write(r.stdout)
    print(r.stdout)
finally:
    shutil.rmtree(d)
