#!/bin/bash
# replay-seeded.sh <id> <property> : run the check against the seeded change, then replay the
# file it reported against the same tree (must reproduce: exit 1) and against the unchanged
# tree (must not: exit 0)
set -u
export GOFLAGS=-mod=mod GOPROXY=off GOSUMDB=off GOTOOLCHAIN=local
ID="$1"; PROP="$2"
OUT=/verif/seeded/$ID
PATCH="$OUT/patch.diff"; [ -f "$OUT/patch.rebased.diff" ] && PATCH="$OUT/patch.rebased.diff"
D="$(mktemp -d /tmp/replay-XXXXXX)"; trap 'rm -rf "$D"' EXIT
rsync -a --exclude .git /repo/ "$D/"
( cd "$D" && patch -p1 -s < "$PATCH" ) || { echo "$ID PATCH-FAILED"; exit 3; }
LOG="$(VERIF_REPO="$D" /verif/bin/check "$PROP" quick 2>&1)"
R="$(echo "$LOG" | grep -a '^VIOLATION' | sed 's/.*replay=//' | head -1)"
[ -z "$R" ] && { echo "$ID $PROP no-violation"; exit 0; }
VERIF_REPO="$D" /verif/bin/check replay "$R" > "$D/.replay1.log" 2>&1; E1=$?
/verif/bin/check replay "$R" > "$D/.replay2.log" 2>&1; E2=$?
A="$(grep -a -m1 'replay attempt' "$D/.replay1.log" | cut -c1-80)"
echo "$ID $PROP replay-on-changed-tree=$E1 ($A) replay-on-unchanged-tree=$E2 file=$(basename "$R")"
