#!/bin/bash
# simgen-selftest.sh: translation validation of the rewriter on tools/simgen/testdata/tricky (see its README)
set -u
export GOFLAGS=-mod=mod GOPROXY=off GOSUMDB=off GOTOOLCHAIN=local
HERE="$(cd "$(dirname "$0")/../.." && pwd)"
D="$(mktemp -d /tmp/simgen-selftest-XXXXXX)"; trap 'rm -rf "$D"' EXIT
mkdir -p "$D/internal" && cp -r "$HERE/overlay/internal/simrt" "$D/internal/" || exit 2
cp "$HERE/tools/simgen/testdata/tricky/go.mod.txt" "$D/go.mod"; cp "$HERE/tools/simgen/testdata/tricky/main.go.txt" "$D/main.go"
( cd "$D" && go1.26.8 run . ) > "$D/before.txt" 2>&1 || { echo "simgen-selftest: original program failed"; cat "$D/before.txt"; exit 2; }
"$HERE/.cache/bin/simgen" -dir "$D" > "$D/simgen.log" 2>&1 || { echo "simgen-selftest: simgen failed"; cat "$D/simgen.log"; exit 2; }
grep -q "simrt.Range3" "$D/main.go" || { echo "simgen-selftest: nothing was rewritten"; exit 2; }
for pol in native sorted reverse shuffle-per-call:3 rotate:5; do
  ( cd "$D" && VERIF_MAPORDER=$pol go1.26.8 run . ) > "$D/after.txt" 2>&1
  if ! cmp -s "$D/before.txt" "$D/after.txt"; then echo "simgen-selftest: output differs under map order $pol"; diff "$D/before.txt" "$D/after.txt" | head -20; exit 2; fi
done
echo "simgen-selftest ok"
