#!/bin/bash
# run-mutants.sh <property> <tier> <patch>... : run the check against each mutant, print one line each
PROP="$1"; TIER="$2"; shift 2
for p in "$@"; do
  out="$(/verif/tools/scripts/run-mutant.sh "$p" "$PROP" "$TIER" 2>&1)"
  v="$(echo "$out" | grep -aE '^VIOLATION|^violation class|MUTANT-DOES-NOT|PATCH-FAILED|^verif:' | head -3 | tr '\n' ' ')"
  e="$(echo "$out" | grep -aE '^exit=' | tail -1)"
  echo "$(basename "$p") $e $v"
done
