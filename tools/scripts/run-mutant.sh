#!/bin/bash
# run-mutant.sh <patch.diff> <property> [tier] : apply the patch to a scratch copy of /repo,
# make sure it builds and passes the repo tests, run the check against it, clean up.
set -u
export GOFLAGS=-mod=mod GOPROXY=off GOSUMDB=off GOTOOLCHAIN=local
PATCH="$(realpath "$1")"; PROP="$2"; TIER="${3:-quick}"
D="$(mktemp -d /tmp/mutant-XXXXXX)"
trap 'rm -rf "$D"' EXIT
rsync -a --exclude .git /repo/ "$D/"
( cd "$D" && patch -p1 -s < "$PATCH" ) || { echo "PATCH-FAILED"; exit 3; }
( cd "$D" && go build ./... && go vet ./processing/... >/dev/null 2>&1; go test -count=1 ./... >/dev/null 2>&1 ) || { echo "MUTANT-DOES-NOT-PASS-BASELINE"; exit 3; }
VERIF_REPO="$D" /verif/bin/check "$PROP" "$TIER"
echo "exit=$?"
