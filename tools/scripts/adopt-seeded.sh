#!/bin/bash
# adopt-seeded.sh <id> <property> <dir with patch.diff + demo files> <demo dest dir in repo> <demo test command>
# Confirms a seeded change in a scratch copy of /repo: it must build, pass the repo's tests,
# its demonstration must fail with the change and pass without; then stores it under /verif/seeded/<id>/.
set -u
export GOFLAGS=-mod=mod GOPROXY=off GOSUMDB=off GOTOOLCHAIN=local CGO_ENABLED=1
ID="$1"; PROP="$2"; SRC="$3"; DEST="$4"; shift 4; DEMO="$*"
OUT=/verif/seeded/$ID
mkdir -p "$OUT"
cp "$SRC"/patch.diff "$OUT"/patch.diff
[ -f "$SRC/notes.md" ] && cp "$SRC/notes.md" "$OUT/notes.md"
for f in "$SRC"/*; do case "$f" in *patch.diff|*notes.md) ;; *) cp -r "$f" "$OUT"/ ;; esac; done
D="$(mktemp -d /tmp/adopt-XXXXXX)"; trap 'rm -rf "$D"' EXIT
rsync -a --exclude .git /repo/ "$D/"
install_demo() { for f in "$OUT"/*; do b=$(basename "$f"); case "$b" in patch.diff|notes.md|meta.json|check-*.log) ;; *.txt) cp "$f" "$D/$DEST/${b%.txt}" ;; *.go|*.sh|*.py) cp "$f" "$D/$DEST/$b" ;; esac; done; }
install_demo
echo "== demo WITHOUT the change"; ( cd "$D" && eval "$DEMO" ) > "$D/.without.log" 2>&1; W=$?; tail -3 "$D/.without.log"
( cd "$D" && patch -p1 -s < "$OUT/patch.diff" ) || { echo "PATCH FAILED"; exit 3; }
echo "== build + repo tests WITH the change (demo files removed)"
( cd "$D" && mkdir -p .demo && for f in "$OUT"/*; do b=$(basename "$f"); rm -f "$DEST/${b%.txt}" "$DEST/$b" 2>/dev/null; done; go build ./... && go test -vet=off -count=1 ./... ) > "$D/.suite.log" 2>&1; S=$?; tail -4 "$D/.suite.log"
install_demo
echo "== demo WITH the change"; ( cd "$D" && eval "$DEMO" ) > "$D/.with.log" 2>&1; C=$?; tail -5 "$D/.with.log"
echo "RESULT demo_without_exit=$W suite_with_exit=$S demo_with_exit=$C"
python3 - "$OUT" "$ID" "$PROP" "$DEMO" "$W" "$S" "$C" <<'PY'
import json,sys,os
out,id_,prop,demo,w,s,c=sys.argv[1:8]
meta={"id":id_,"breaks_property":prop,"demo_command":demo,"confirmed":{"demo_passes_without_change":w=="0","repo_suite_passes_with_change":s=="0","demo_fails_with_change":c!="0"}}
p=os.path.join(out,"meta.json")
if os.path.exists(p):
    old=json.load(open(p)); old.update(meta); meta=old
json.dump(meta,open(p,"w"),indent=1)
PY
