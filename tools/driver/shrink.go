package main

import (
	"bytes"
	"encoding/json"
	"fmt"
	"os"
	"strconv"
	"strings"
	"sync"
	"time"
)

// Replay files are engine specific; the shrinker treats them as generic JSON and only
// needs to know which arrays may lose elements ("shrink_arrays", paths with * wildcards),
// which integers may become smaller ("shrink_ints") and that "tape" is the schedule.

func decodeGeneric(raw []byte) (map[string]interface{}, error) {
	dec := json.NewDecoder(bytes.NewReader(raw))
	dec.UseNumber()
	var m map[string]interface{}
	err := dec.Decode(&m)
	return m, err
}

func encodeGeneric(m map[string]interface{}) json.RawMessage {
	b, err := json.Marshal(m)
	if err != nil {
		panic(err)
	}
	return b
}

func deepCopy(v interface{}) interface{} {
	switch x := v.(type) {
	case map[string]interface{}:
		m := make(map[string]interface{}, len(x))
		for k, e := range x {
			m[k] = deepCopy(e)
		}
		return m
	case []interface{}:
		a := make([]interface{}, len(x))
		for i, e := range x {
			a[i] = deepCopy(e)
		}
		return a
	}
	return v
}

// expandPaths resolves wildcards against the current document.
func expandPaths(doc interface{}, path []string, prefix []string, out *[][]string) {
	if len(path) == 0 {
		*out = append(*out, append([]string(nil), prefix...))
		return
	}
	switch x := doc.(type) {
	case map[string]interface{}:
		if path[0] == "*" {
			keys := make([]string, 0, len(x))
			for k := range x {
				keys = append(keys, k)
			}
			sortStrings(keys)
			for _, k := range keys {
				expandPaths(x[k], path[1:], append(prefix, k), out)
			}
			return
		}
		if c, ok := x[path[0]]; ok {
			expandPaths(c, path[1:], append(prefix, path[0]), out)
		}
	case []interface{}:
		if path[0] == "*" {
			for i := range x {
				expandPaths(x[i], path[1:], append(prefix, strconv.Itoa(i)), out)
			}
			return
		}
		if i, err := strconv.Atoi(path[0]); err == nil && i < len(x) {
			expandPaths(x[i], path[1:], append(prefix, path[0]), out)
		}
	}
}

func sortStrings(s []string) {
	for i := 1; i < len(s); i++ {
		for j := i; j > 0 && s[j] < s[j-1]; j-- {
			s[j], s[j-1] = s[j-1], s[j]
		}
	}
}

func getPath(doc interface{}, path []string) interface{} {
	for _, p := range path {
		switch x := doc.(type) {
		case map[string]interface{}:
			doc = x[p]
		case []interface{}:
			i, err := strconv.Atoi(p)
			if err != nil || i >= len(x) {
				return nil
			}
			doc = x[i]
		default:
			return nil
		}
	}
	return doc
}

func setPath(doc interface{}, path []string, v interface{}) {
	for i, p := range path {
		last := i == len(path)-1
		switch x := doc.(type) {
		case map[string]interface{}:
			if last {
				x[p] = v
				return
			}
			doc = x[p]
		case []interface{}:
			idx, _ := strconv.Atoi(p)
			if last {
				x[idx] = v
				return
			}
			doc = x[idx]
		}
	}
}

type shrinker struct {
	rc       *runCtx
	ph       phase
	class    string
	best     map[string]interface{}
	evals    int
	accepted int
	deadline time.Time
}

// evalBatch evaluates candidates in parallel engine processes; returns the lowest
// index that reproduces the class (or -1) and what the engine reported for it.
func (s *shrinker) evalBatch(cands []map[string]interface{}) (int, candResult) {
	if len(cands) == 0 {
		return -1, candResult{}
	}
	s.evals += len(cands)
	par := 16
	if len(cands) < par {
		par = len(cands)
	}
	// contiguous slices, each process stops at its first hit
	type hit struct {
		idx int
		res candResult
	}
	hits := make([]hit, par)
	var wg sync.WaitGroup
	per := (len(cands) + par - 1) / par
	for p := 0; p < par; p++ {
		lo, hi := p*per, (p+1)*per
		if hi > len(cands) {
			hi = len(cands)
		}
		hits[p].idx = -1
		if lo >= hi {
			continue
		}
		wg.Add(1)
		go func(p, lo, hi int) {
			defer wg.Done()
			raws := make([]json.RawMessage, 0, hi-lo)
			for _, c := range cands[lo:hi] {
				raws = append(raws, encodeGeneric(c))
			}
			rs := s.rc.evalCandidates(s.ph, raws, s.class)
			for i, r := range rs {
				if sameClass(r.Class, s.class) {
					hits[p] = hit{lo + i, r}
					return
				}
			}
		}(p, lo, hi)
	}
	wg.Wait()
	for _, h := range hits {
		if h.idx >= 0 {
			return h.idx, h.res
		}
	}
	return -1, candResult{}
}

type candResult struct {
	Class   string
	Message string
	Trace   []string
	Tape    []interface{}
	Ran     bool
}

// evalCandidates runs the candidates in order in ONE engine process; if that process
// dies on candidate i, candidate i gets the crash class and the rest are evaluated in
// a new process.
func (rc *runCtx) evalCandidates(ph phase, raws []json.RawMessage, want string) []candResult {
	out := make([]candResult, len(raws))
	start := 0
	for start < len(raws) {
		job := Job{Engine: ph.Engine, Property: rc.prop, Mix: ph.Mix, Mode: "candidates", Tier: rc.tier,
			Candidates: raws[start:], WantClass: want, Extra: ph.Extra}
		o := rc.runJob(ph, job, 5*time.Minute, 0)
		progressed := 0
		for _, l := range o.Lines {
			var t string
			json.Unmarshal(l["t"], &t)
			if t != "cand" {
				continue
			}
			var i int
			json.Unmarshal(l["cand"], &i)
			r := candResult{Ran: true}
			json.Unmarshal(l["class"], &r.Class)
			json.Unmarshal(l["message"], &r.Message)
			json.Unmarshal(l["trace"], &r.Trace)
			var tp []interface{}
			d := json.NewDecoder(bytes.NewReader(l["tape"]))
			d.UseNumber()
			d.Decode(&tp)
			r.Tape = tp
			if start+i < len(out) {
				out[start+i] = r
			}
			progressed = i + 1
			if want != "" && sameClass(r.Class, want) {
				return out
			}
		}
		if o.Exit == 0 && !o.Killed {
			return out
		}
		// the process died while running candidate `progressed`
		idx := start + progressed
		if idx >= len(out) {
			return out
		}
		if o.Killed {
			out[idx] = candResult{Ran: true, Class: "hang/wall-clock", Message: "engine process killed by the watchdog"}
		} else if o.Exit == 3 {
			out[idx] = candResult{Ran: true, Class: "engine-error", Message: tail(o.Stderr, 500)}
		} else {
			c, m := crashClass(o)
			out[idx] = candResult{Ran: true, Class: c, Message: m}
		}
		if want != "" && sameClass(out[idx].Class, want) {
			return out
		}
		start = idx + 1
	}
	return out
}

func (s *shrinker) timeUp() bool { return time.Now().After(s.deadline) }

func (s *shrinker) try(cands []map[string]interface{}) bool {
	if len(cands) == 0 || s.timeUp() {
		return false
	}
	i, res := s.evalBatch(cands)
	if i < 0 {
		return false
	}
	s.best = cands[i]
	s.accepted++
	if v, ok := s.best["violation"].(map[string]interface{}); ok && res.Message != "" {
		v["message"] = res.Message
	}
	if res.Trace != nil {
		tr := make([]interface{}, len(res.Trace))
		for k, l := range res.Trace {
			tr[k] = l
		}
		s.best["trace"] = tr
	}
	return true
}

func stringList(v interface{}) []string {
	a, _ := v.([]interface{})
	var out []string
	for _, e := range a {
		if s, ok := e.(string); ok {
			out = append(out, s)
		}
	}
	return out
}

// shrinkArrays: delta debugging (chunks of n/2, n/4, ... 1) on every designated array.
func (s *shrinker) shrinkArrays() bool {
	progress := false
	for _, pat := range stringList(s.best["shrink_arrays"]) {
		var paths [][]string
		expandPaths(s.best, strings.Split(pat, "."), nil, &paths)
		for _, path := range paths {
			arr, ok := getPath(s.best, path).([]interface{})
			if !ok || len(arr) == 0 {
				continue
			}
			for chunk := len(arr); chunk >= 1; {
				arr, _ = getPath(s.best, path).([]interface{})
				if len(arr) == 0 {
					break
				}
				if chunk > len(arr) {
					chunk = len(arr)
				}
				var cands []map[string]interface{}
				for lo := 0; lo < len(arr); lo += chunk {
					hi := lo + chunk
					if hi > len(arr) {
						hi = len(arr)
					}
					c := deepCopy(s.best).(map[string]interface{})
					na := append(append([]interface{}{}, arr[:lo]...), arr[hi:]...)
					setPath(c, path, deepCopy(na))
					cands = append(cands, c)
				}
				if s.try(cands) {
					progress = true
					continue // same chunk size again on the smaller array
				}
				if chunk == 1 || s.timeUp() {
					break
				}
				chunk /= 2
			}
		}
	}
	return progress
}

func (s *shrinker) shrinkTape() bool {
	progress := false
	tape, ok := s.best["tape"].([]interface{})
	if !ok || len(tape) == 0 {
		return false
	}
	// 1. shortest prefix (choices beyond the tape are 0 = lowest logical id)
	for {
		tape, _ = s.best["tape"].([]interface{})
		n := len(tape)
		if n == 0 {
			break
		}
		var cands []map[string]interface{}
		for _, keep := range []int{0, n / 8, n / 4, n / 2, n * 3 / 4, n - 1} {
			if keep >= n {
				continue
			}
			c := deepCopy(s.best).(map[string]interface{})
			c["tape"] = deepCopy(tape[:keep])
			cands = append(cands, c)
		}
		if !s.try(cands) {
			break
		}
		progress = true
	}
	// 2. zero chunks, then delete chunks
	for _, mode := range []string{"zero", "delete"} {
		tape, _ = s.best["tape"].([]interface{})
		for chunk := len(tape) / 2; chunk >= 1; {
			tape, _ = s.best["tape"].([]interface{})
			var cands []map[string]interface{}
			for lo := 0; lo < len(tape); lo += chunk {
				hi := lo + chunk
				if hi > len(tape) {
					hi = len(tape)
				}
				allZero := true
				for _, e := range tape[lo:hi] {
					if n, ok := e.(json.Number); !ok || n.String() != "0" {
						allZero = false
					}
				}
				if mode == "zero" && allZero {
					continue
				}
				c := deepCopy(s.best).(map[string]interface{})
				nt := deepCopy(tape).([]interface{})
				if mode == "zero" {
					for i := lo; i < hi; i++ {
						nt[i] = json.Number("0")
					}
				} else {
					nt = append(nt[:lo], nt[hi:]...)
				}
				c["tape"] = nt
				cands = append(cands, c)
				if len(cands) >= 64 {
					break
				}
			}
			if s.try(cands) {
				progress = true
				continue
			}
			if chunk == 1 || s.timeUp() {
				break
			}
			chunk /= 2
		}
	}
	return progress
}

func (s *shrinker) shrinkInts() bool {
	progress := false
	for _, pat := range stringList(s.best["shrink_ints"]) {
		var paths [][]string
		expandPaths(s.best, strings.Split(pat, "."), nil, &paths)
		for _, path := range paths {
			n, ok := getPath(s.best, path).(json.Number)
			if !ok {
				continue
			}
			v, err := n.Int64()
			if err != nil || v <= 0 {
				continue
			}
			var cands []map[string]interface{}
			for _, nv := range []int64{0, 1, v / 2, v - 1} {
				if nv >= v || nv < 0 {
					continue
				}
				c := deepCopy(s.best).(map[string]interface{})
				setPath(c, path, json.Number(strconv.FormatInt(nv, 10)))
				cands = append(cands, c)
			}
			if s.try(cands) {
				progress = true
			}
		}
	}
	return progress
}

// minimise shrinks a replay object while the same violation class recurs.
func (rc *runCtx) minimise(ph phase, raw json.RawMessage, class string, budget time.Duration) (json.RawMessage, string) {
	doc, err := decodeGeneric(raw)
	if err != nil {
		return raw, "not shrunk: " + err.Error()
	}
	s := &shrinker{rc: rc, ph: ph, class: class, best: doc, deadline: time.Now().Add(budget)}
	for round := 0; round < 6 && !s.timeUp(); round++ {
		p1 := s.shrinkArrays()
		p2 := s.shrinkTape()
		p3 := s.shrinkInts()
		if !p1 && !p2 && !p3 {
			break
		}
	}
	note := fmt.Sprintf("minimised with %d candidate evaluations, %d accepted", s.evals, s.accepted)
	s.best["minimisation"] = note
	return encodeGeneric(s.best), note
}

func writeReplay(prop string, raw json.RawMessage, tag string) (string, error) {
	dir := verifDir + "/replays"
	if os.Getenv("VERIF_REPO") != "" {
		dir = verifDir + "/replays/mutant-runs"
	}
	if err := os.MkdirAll(dir, 0o755); err != nil {
		return "", err
	}
	var pretty bytes.Buffer
	if err := json.Indent(&pretty, raw, "", " "); err != nil {
		pretty.Write(raw)
	}
	p := fmt.Sprintf("%s/%s-%s.json", dir, prop, tag)
	return p, os.WriteFile(p, pretty.Bytes(), 0o644)
}
