package main

import (
	"crypto/sha256"
	"encoding/hex"
	"encoding/json"
	"fmt"
	"io"
	"io/fs"
	"os"
	"os/exec"
	"path/filepath"
	"sort"
	"strings"
	"syscall"
	"time"
)

const goNew = "go1.26.8"

// verifDir is the root of the verification tree this driver belongs to: bin/check
// exports it (a background snapshot of /verif must use its own overlay, cache, evidence
// and replay directories, not those of /verif).
var verifDir = func() string {
	if d := os.Getenv("VERIF_HOME"); d != "" {
		return d
	}
	return "/verif"
}()

func repoDir() string {
	if d := os.Getenv("VERIF_REPO"); d != "" {
		return d
	}
	return "/repo"
}

func goEnv() []string {
	env := os.Environ()
	env = append(env, "GOFLAGS=-mod=mod", "GOPROXY=off", "GOSUMDB=off", "GOTOOLCHAIN=local", "CGO_ENABLED=1")
	return env
}

// hashTree hashes every file under the given roots that matters for a build.
func hashTree(h io.Writer, root string, want func(rel string, d fs.DirEntry) bool) error {
	var files []string
	err := filepath.WalkDir(root, func(p string, d fs.DirEntry, err error) error {
		if err != nil {
			return err
		}
		rel, _ := filepath.Rel(root, p)
		if d.IsDir() {
			if d.Name() == ".git" || d.Name() == ".cache" {
				return filepath.SkipDir
			}
			return nil
		}
		if want(rel, d) {
			files = append(files, p)
		}
		return nil
	})
	if err != nil {
		return err
	}
	sort.Strings(files)
	for _, f := range files {
		b, err := os.ReadFile(f)
		if err != nil {
			return err
		}
		rel, _ := filepath.Rel(root, f)
		fmt.Fprintf(h, "%s %d\n", rel, len(b))
		h.Write(b)
	}
	return nil
}

func buildKey() (string, error) {
	h := sha256.New()
	err := hashTree(h, repoDir(), func(rel string, d fs.DirEntry) bool {
		if strings.HasSuffix(rel, ".go") || rel == "go.mod" || rel == "go.sum" {
			return true
		}
		// embedded documents (tile matrix sets) and the example GeoPackage
		return strings.HasSuffix(rel, ".json") || strings.HasSuffix(rel, ".gpkg")
	})
	if err != nil {
		return "", err
	}
	for _, sub := range []string{"overlay", "tools"} {
		if err := hashTree(h, filepath.Join(verifDir, sub), func(rel string, d fs.DirEntry) bool { return true }); err != nil {
			return "", err
		}
	}
	return hex.EncodeToString(h.Sum(nil))[:24], nil
}

type engineBuild struct {
	name  string // binary name in the cache dir
	pkg   string // package directory inside the copy
	race  bool   // build with -race
	plain bool   // built from the un-instrumented tree
	bin   bool   // the real binary (go build with the default toolchain), not a test binary
	tags  string
}

var engineBuilds = map[string]engineBuild{
	"pipesim":       {name: "pipesim.test", pkg: "./processing"},
	"pipesim-race":  {name: "pipesim-race.test", pkg: "./processing", race: true},
	"snapsim":       {name: "snapsim.test", pkg: "./snap"},
	"snapsim-plain": {name: "snapsim-plain.test", pkg: "./snap", plain: true},
	"snapsim-race":  {name: "snapsim-race.test", pkg: "./snap", race: true},
	"gpkgsim":       {name: "gpkgsim.test", pkg: "./processing/gpkg"},
	"gpkgsim-race":  {name: "gpkgsim-race.test", pkg: "./processing/gpkg", race: true},
	"toolsim":       {name: "toolsim.test", pkg: "."},
	"toolsim-race":  {name: "toolsim-race.test", pkg: ".", race: true},
	"texel-bin":     {name: "texel-verif", pkg: ".", plain: true, bin: true},
}

type buildInfo struct {
	Key       string                 `json:"key"`
	Dir       string                 `json:"dir"`
	Inventory map[string]interface{} `json:"inventory"`
	Fidelity  map[string]string      `json:"fidelity"` // repo test suite inside the instrumented copy, per map policy
	BuiltAt   string                 `json:"built_at"`
}

func run(dir string, env []string, name string, args ...string) (string, error) {
	cmd := exec.Command(name, args...)
	cmd.Dir = dir
	cmd.Env = env
	out, err := cmd.CombinedOutput()
	return string(out), err
}

func copyTree(src, dst string, skip func(rel string) bool) error {
	return filepath.WalkDir(src, func(p string, d fs.DirEntry, err error) error {
		if err != nil {
			return err
		}
		rel, _ := filepath.Rel(src, p)
		if rel != "." && skip != nil && skip(rel) {
			if d.IsDir() {
				return filepath.SkipDir
			}
			return nil
		}
		target := filepath.Join(dst, rel)
		if d.IsDir() {
			return os.MkdirAll(target, 0o755)
		}
		if !d.Type().IsRegular() {
			return nil
		}
		b, err := os.ReadFile(p)
		if err != nil {
			return err
		}
		return os.WriteFile(target, b, 0o644)
	})
}

// ensureBuild makes sure the engine binaries named in want exist for the current state
// of /repo's working tree (and of /verif's overlay and tools). It returns the cache
// directory. Everything is built in a scratch directory outside /repo and /verif that
// is removed before returning.
func ensureBuild(want []string) (*buildInfo, error) {
	key, err := buildKey()
	if err != nil {
		return nil, err
	}
	cacheRoot := filepath.Join(verifDir, ".cache", "build")
	if err := os.MkdirAll(cacheRoot, 0o755); err != nil {
		return nil, err
	}
	lock, err := os.OpenFile(filepath.Join(cacheRoot, ".lock"), os.O_CREATE|os.O_RDWR, 0o644)
	if err != nil {
		return nil, err
	}
	defer lock.Close()
	if err := syscall.Flock(int(lock.Fd()), syscall.LOCK_EX); err != nil {
		return nil, err
	}
	defer syscall.Flock(int(lock.Fd()), syscall.LOCK_UN)

	dir := filepath.Join(cacheRoot, key)
	info := &buildInfo{Key: key, Dir: dir}
	infoPath := filepath.Join(dir, "build.json")
	if b, err := os.ReadFile(infoPath); err == nil {
		_ = json.Unmarshal(b, info)
		info.Dir = dir
	}
	var missing []string
	for _, w := range want {
		eb, ok := engineBuilds[w]
		if !ok {
			return nil, fmt.Errorf("unknown engine build %q", w)
		}
		if _, err := os.Stat(filepath.Join(dir, eb.name)); err != nil {
			missing = append(missing, w)
		}
	}
	if len(missing) == 0 && info.Inventory != nil {
		return info, nil
	}
	t0 := time.Now()
	if err := os.MkdirAll(dir, 0o755); err != nil {
		return nil, err
	}
	scratchBase := "/dev/shm"
	if _, err := os.Stat(scratchBase); err != nil {
		scratchBase = os.TempDir()
	}
	scratch, err := os.MkdirTemp(scratchBase, "verif-build-")
	if err != nil {
		return nil, err
	}
	defer os.RemoveAll(scratch)
	cleanups = append(cleanups, func() { os.RemoveAll(scratch) })
	inst := filepath.Join(scratch, "inst")
	plain := filepath.Join(scratch, "plain")
	skip := func(rel string) bool { return rel == ".git" || strings.HasPrefix(rel, ".git/") }
	if err := copyTree(repoDir(), inst, skip); err != nil {
		return nil, err
	}
	// overlay: runtime + harness packages
	if err := copyTree(filepath.Join(verifDir, "overlay", "internal"), filepath.Join(inst, "internal"), nil); err != nil {
		return nil, err
	}
	invPath := filepath.Join(scratch, "inventory.json")
	if out, err := run(inst, goEnv(), filepath.Join(verifDir, ".cache", "bin", "simgen"), "-dir", inst, "-inventory", invPath); err != nil {
		return nil, fmt.Errorf("simgen failed: %v\n%s", err, out)
	}
	if b, err := os.ReadFile(invPath); err == nil {
		_ = json.Unmarshal(b, &info.Inventory)
	}
	// fidelity of the rewrite: the repository's own tests inside the instrumented copy,
	// before any engine file is added, under several map-order policies
	if info.Fidelity == nil {
		info.Fidelity = map[string]string{}
		for _, pol := range []string{"sorted", "reverse", "shuffle-per-call:7"} {
			env := append(goEnv(), "VERIF_MAPORDER="+pol)
			out, err := run(inst, env, goNew, "test", "-vet=off", "-count=1", "./...")
			if err != nil {
				// not fatal here: for C07 this is a finding (a result depends on map order),
				// the other checks carry on with a warning
				info.Fidelity[pol] = "FAIL\n" + out
				continue
			}
			info.Fidelity[pol] = "pass"
		}
	}
	// engines
	if err := copyTree(filepath.Join(verifDir, "overlay", "engines"), inst, nil); err != nil {
		return nil, err
	}
	needPlain := false
	for _, w := range missing {
		if engineBuilds[w].plain {
			needPlain = true
		}
	}
	if needPlain {
		if err := copyTree(repoDir(), plain, skip); err != nil {
			return nil, err
		}
		// the un-instrumented tree gets the runtime package (idle: nothing calls the seams)
		// and the engine files, but is NOT rewritten by simgen
		if err := copyTree(filepath.Join(verifDir, "overlay", "internal"), filepath.Join(plain, "internal"), nil); err != nil {
			return nil, err
		}
		if err := copyTree(filepath.Join(verifDir, "overlay", "engines"), plain, nil); err != nil {
			return nil, err
		}
	}
	for _, w := range missing {
		eb := engineBuilds[w]
		src := inst
		if eb.plain {
			src = plain
		}
		args := []string{"test", "-c", "-tags", "verif", "-vet=off", "-o", filepath.Join(dir, eb.name)}
		if eb.race {
			args = append(args, "-race")
		}
		args = append(args, eb.pkg)
		tool := goNew
		if eb.bin {
			// the shipped toolchain (the one the baseline uses), un-instrumented tree
			tool = "go"
			args = []string{"build", "-tags", "verif", "-o", filepath.Join(dir, eb.name), eb.pkg}
		}
		if out, err := run(src, goEnv(), tool, args...); err != nil {
			return nil, fmt.Errorf("building %s failed: %v\n%s", w, err, out)
		}
	}
	info.BuiltAt = time.Now().UTC().Format(time.RFC3339)
	b, _ := json.MarshalIndent(info, "", " ")
	if err := os.WriteFile(infoPath, b, 0o644); err != nil {
		return nil, err
	}
	pruneCache(cacheRoot, key)
	fmt.Fprintf(os.Stderr, "[build] %s: built %v in %.1fs\n", key, missing, time.Since(t0).Seconds())
	return info, nil
}

// pruneCache keeps the current and the most recent other generation.
func pruneCache(root, keep string) {
	ents, err := os.ReadDir(root)
	if err != nil {
		return
	}
	type gen struct {
		name string
		mod  time.Time
	}
	var gens []gen
	for _, e := range ents {
		if !e.IsDir() || e.Name() == keep {
			continue
		}
		fi, err := e.Info()
		if err != nil {
			continue
		}
		gens = append(gens, gen{e.Name(), fi.ModTime()})
	}
	sort.Slice(gens, func(i, j int) bool { return gens[i].mod.After(gens[j].mod) })
	for i, g := range gens {
		// keep the most recent other generation, and anything younger than two hours: another
		// check (a mutant run, a background run) may be using it right now
		if i >= 1 && time.Since(g.mod) > 2*time.Hour {
			os.RemoveAll(filepath.Join(root, g.name))
		}
	}
}
