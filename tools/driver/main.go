// driver orchestrates the deterministic-simulation checks of /verif:
//
//	driver check <property> <quick|thorough>
//	driver replay <replay file>
//	driver setup
//
// exit 0: the property held on everything explored; exit 1 plus a line
// "VIOLATION property=<id> replay=<path>": a violation (minimised, replayed once more in
// a fresh process); exit 2: build / instrumentation / watchdog / determinism trouble —
// never reported as a violation.
package main

import (
	"bufio"
	"encoding/json"
	"fmt"
	"os"
	"sort"
	"strconv"
	"strings"
	"time"
)

// cleanups run before the process ends through die2 or a violation exit (deferred calls
// do not survive os.Exit): scratch directories must not be left behind.
var cleanups []func()

func runCleanups() {
	for i := len(cleanups) - 1; i >= 0; i-- {
		cleanups[i]()
	}
	cleanups = nil
}

func die2(format string, args ...interface{}) {
	fmt.Fprintf(os.Stderr, "verif: "+format+"\n", args...)
	runCleanups()
	os.Exit(2)
}

type knownFinding struct {
	Property string
	Sig      string
	Text     string
}

func loadKnown() []knownFinding {
	f, err := os.Open(verifDir + "/KNOWN_FINDINGS.txt")
	if err != nil {
		return nil
	}
	defer f.Close()
	var out []knownFinding
	sc := bufio.NewScanner(f)
	for sc.Scan() {
		l := strings.TrimSpace(sc.Text())
		if !strings.HasPrefix(l, "finding:") {
			continue // "fixed:" lines and comments suppress nothing
		}
		k := knownFinding{}
		rest := strings.TrimSpace(strings.TrimPrefix(l, "finding:"))
		fs := strings.Fields(rest)
		var text []string
		for _, f := range fs {
			switch {
			case strings.HasPrefix(f, "property=") && k.Property == "":
				k.Property = strings.TrimPrefix(f, "property=")
			case strings.HasPrefix(f, "sig=") && k.Sig == "":
				k.Sig = strings.TrimPrefix(f, "sig=")
			default:
				text = append(text, f)
			}
		}
		k.Text = strings.Join(text, " ")
		if k.Property != "" && k.Sig != "" {
			out = append(out, k)
		}
	}
	return out
}

type checker struct {
	rc        *runCtx
	prop      string
	tier      string
	seed      uint64
	t0        time.Time
	known     []knownFinding
	knownSeen map[string]int64
	phasesRun []map[string]interface{}
	selftest  map[string]interface{}
	racePass  map[string]interface{}
	extraCov  map[string]interface{}
	violation string // replay path
	violClass string
	plan      plan
}

// timingClass: failures that need two goroutines to execute between scheduling points at
// the same time (the Go runtime's own detection of unsynchronised map access, a race
// report). The simulator decides the order of scheduling points, not the real overlap of
// the code between them, so such a failure cannot be forced by replaying a schedule.
func timingClass(class string) bool {
	return class == "crash/concurrent-map-access" || class == "crash/data-race"
}

// selfCertifying: classes whose report carries its own proof (see report).
func selfCertifying(class string) bool {
	return timingClass(class) || class == "lifecycle/hang-free-running"
}

func sameClass(got, want string) bool {
	return got == want || (got != "" && timingClass(got) && timingClass(want))
}

func (c *checker) knownSigs() string {
	var s []string
	for _, k := range c.known {
		if k.Property == c.prop {
			s = append(s, k.Sig)
		}
	}
	return strings.Join(s, ",")
}

func (c *checker) isKnown(class string) bool {
	for _, k := range c.known {
		if k.Property == c.prop && k.Sig == class {
			return true
		}
	}
	return false
}

// handle inspects the outcomes of a phase. It returns true if a (new) violation was
// found and reported.
func (c *checker) handle(ph phase, outs []workerOutcome) bool {
	type viol struct {
		seed  uint64
		raw   json.RawMessage
		class string
	}
	var viols []viol
	anyViolation := false
	for _, o := range outs {
		if o.Violation != nil {
			anyViolation = true
		}
	}
	for _, o := range outs {
		if o.Killed {
			if anyViolation {
				continue // another worker has a violation to report; a hang next to it is most likely collateral
			}
			die2("phase %s: engine process (worker %d) hit the wall-clock watchdog while running %s; stderr:\n%s", ph.Name, o.Worker, o.LastStart, o.Stderr)
		}
		if o.Exit == 3 || (o.Exit != 0 && strings.Contains(o.Stderr, "ENGINE-ERROR")) {
			die2("phase %s: engine error (worker %d): %s", ph.Name, o.Worker, o.Stderr)
		}
		if o.Violation != nil {
			doc, err := decodeGeneric(o.Violation)
			if err != nil {
				die2("bad violation record: %v", err)
			}
			class := ""
			if v, ok := doc["violation"].(map[string]interface{}); ok {
				class, _ = v["class"].(string)
			}
			viols = append(viols, viol{o.ViolSeed, o.Violation, class})
			continue
		}
		if o.Summary == nil {
			if !o.HasLast {
				die2("phase %s: engine process (worker %d) ended with exit %d before its first run; stderr:\n%s", ph.Name, o.Worker, o.Exit, o.Stderr)
			}
			// the run in flight killed the process: recover its replay file and schedule
			class, msg := crashClass(o)
			if timingClass(class) && ph.Mode != "race" && !c.isKnown(class) {
				c.reportTiming(ph, o.LastSeed, class, msg)
				return true
			}
			raw, _ := c.recoverCrash(ph, o.LastSeed, class, msg, false)
			viols = append(viols, viol{o.LastSeed, raw, class})
		}
	}
	if len(viols) == 0 {
		return false
	}
	sort.Slice(viols, func(i, j int) bool { return viols[i].seed < viols[j].seed })
	for _, v := range viols {
		if c.isKnown(v.class) {
			c.knownSeen[v.class]++
			continue
		}
		c.report(ph, v.raw, v.class, v.seed)
		return true
	}
	return false
}

// recoverCrash re-runs a single seed with the replay file and the schedule streamed to
// disk, so that a run that ends by killing the process still yields a replay file.
func (c *checker) recoverCrash(ph phase, seed uint64, class, msg string, tolerant bool) (json.RawMessage, bool) {
	ph2 := ph
	ph2.Extra = map[string]string{}
	for k, v := range ph.Extra {
		ph2.Extra[k] = v
	}
	var lastErr string
	var cleanDoc map[string]interface{}
	// first alone; if the run is clean then, state kept across calls of the code under test
	// may be involved: repeat with the preceding seeds as a prelude
	for _, prelude := range []uint64{0, 1, 2, 4, 8, 16, 32} {
		if prelude > seed {
			break
		}
		stream := c.rc.scratch + fmt.Sprintf("/stream-%d-%d.jsonl", seed, prelude)
		os.Remove(stream)
		ph2.Extra["stream"] = stream
		job := Job{Engine: ph.Engine, Property: c.prop, Mix: ph.Mix, Mode: ph.Mode, Tier: c.tier,
			SeedLo: seed - prelude, SeedHi: seed + 1, Extra: ph2.Extra}
		o := c.rc.runJob(ph2, job, 5*time.Minute, 0)
		f, err := os.Open(stream)
		if err != nil {
			lastErr = fmt.Sprintf("the diagnostic re-run left no stream (exit %d): %s", o.Exit, o.Stderr)
			continue
		}
		var doc map[string]interface{}
		var tape []interface{}
		sc := bufio.NewScanner(f)
		sc.Buffer(make([]byte, 1<<20), 1<<28)
		for sc.Scan() {
			m, err := decodeGeneric(sc.Bytes())
			if err != nil {
				continue
			}
			switch m["t"] {
			case "replay": // one per seed of the range: the last one is the run in flight
				doc, _ = m["replay"].(map[string]interface{})
				tape = nil
			case "tape":
				tape = append(tape, m["x"])
			}
		}
		f.Close()
		if doc == nil {
			lastErr = "no replay record in the diagnostic stream"
			continue
		}
		reproduced := o.Summary == nil || o.Violation != nil
		if !reproduced && ph.Mode != "race" {
			lastErr = fmt.Sprintf("ran clean when repeated with a prelude of %d seeds", prelude)
			if n, ok := doc["seed"].(json.Number); ok && n.String() == strconv.FormatUint(seed, 10) && cleanDoc == nil {
				cleanDoc = doc
			}
			if tolerant && prelude >= 2 {
				break
			}
			continue
		}
		if n, ok := doc["seed"].(json.Number); ok && n.String() != strconv.FormatUint(seed, 10) && ph.Mode != "race" {
			lastErr = "the process died on another seed of the prelude"
			continue
		}
		if len(tape) > 0 {
			doc["tape"] = tape
		}
		if prelude > 0 {
			doc["prelude"] = json.Number(strconv.FormatUint(prelude, 10))
		}
		doc["violation"] = map[string]interface{}{"class": class, "message": msg}
		return encodeGeneric(doc), true
	}
	if tolerant && cleanDoc != nil {
		cleanDoc["violation"] = map[string]interface{}{"class": class, "message": msg}
		return encodeGeneric(cleanDoc), false
	}
	die2("phase %s: seed %d killed the engine process (%s: %s) but could not be reproduced in a diagnostic re-run (%s) — refusing to report", ph.Name, seed, class, msg, lastErr)
	return nil, false
}

// reportTiming reports a failure of a timing class that ended a simulated run. If the
// diagnostic re-run reproduces it, it is reported like any other crash. Otherwise its
// workload is repeated free-running under the race detector (the plan's race phase), and
// if even that stays quiet the runtime's own message is reported with the workload as the
// replay file, marked flaky: the abort itself is sound evidence of unsynchronised access.
func (c *checker) reportTiming(ph phase, seed uint64, class, msg string) {
	fmt.Printf("phase %s: seed %d ended the engine process with %s (a timing class); diagnosing\n", ph.Name, seed, class)
	raw, reproduced := c.recoverCrash(ph, seed, class, msg, true)
	if reproduced {
		c.report(ph, raw, class, seed)
		return
	}
	doc, _ := decodeGeneric(raw)
	delete(doc, "tape")
	if rph, ok := c.plan.phase("race", c.tier); ok {
		doc["violation"] = map[string]interface{}{"class": "crash/data-race", "message": msg}
		cand := encodeGeneric(doc)
		for attempt := 0; attempt < 3; attempt++ {
			if c.rc.evalCandidatesRepeated(rph, cand, "crash/data-race") {
				c.report(rph, cand, "crash/data-race", seed)
				return
			}
		}
		ph = rph
	}
	doc["violation"] = map[string]interface{}{"class": class, "message": msg}
	doc["replay_phase"] = ph.Name
	doc["property"] = c.prop
	doc["flaky"] = true
	note := "the Go runtime aborted a simulated run of this workload: two goroutines were inside the code between scheduling points at the same time. " +
		"A schedule replay cannot force that overlap; the replay repeats the workload (not minimised) and may need several attempts"
	doc["note"] = note
	path, err := writeReplay(c.prop, encodeGeneric(doc), fmt.Sprintf("%s-seed%d", sanitize(class), seed))
	if err != nil {
		die2("cannot write replay: %v", err)
	}
	fmt.Printf("violation class: %s\n%s\n%s\n", class, msg, note)
	fmt.Printf("VIOLATION property=%s replay=%s\n", c.prop, path)
	c.violation, c.violClass = path, class
}

// digestBlockOf: block bounds of a replay object of the digest phases (C07 oracle 2).
func digestBlockOf(raw json.RawMessage) (lo, hi uint64, ok bool) {
	doc, err := decodeGeneric(raw)
	if err != nil {
		return 0, 0, false
	}
	a, okA := doc["block_lo"].(json.Number)
	b, okB := doc["block_hi"].(json.Number)
	if !okA || !okB {
		return 0, 0, false
	}
	lo, _ = strconv.ParseUint(a.String(), 10, 64)
	hi, _ = strconv.ParseUint(b.String(), 10, 64)
	return lo, hi, hi > lo
}

var blockCounter int

// evalDigestBlock runs the two processes of the digest phases over one block of seeds on
// the tree being looked at: the instrumented build writes reference digests (sorted map
// order, block walked upwards), the un-instrumented build compares (Go's own map order,
// block walked downwards, second id list first). Returns the violation record if the
// comparison fails.
func (rc *runCtx) evalDigestBlock(pl plan, tier string, lo, hi uint64) (json.RawMessage, uint64) {
	refPh, ok1 := pl.phase("reference-digests", tier)
	cmpPh, ok2 := pl.phase("process-repetition", tier)
	if !ok1 || !ok2 {
		return nil, 0
	}
	blockCounter++
	dir := fmt.Sprintf("%s/refdigests-block-%d", rc.scratch, blockCounter)
	os.MkdirAll(dir, 0o755)
	defer os.RemoveAll(dir)
	mk := func(ph phase) Job {
		extra := map[string]string{"ref_dir": dir}
		for k, v := range ph.Extra {
			extra[k] = v
		}
		extra["ref_dir"] = dir
		return Job{Engine: ph.Engine, Property: rc.prop, Mix: ph.Mix, Mode: ph.Mode, Tier: tier, SeedLo: lo, SeedHi: hi, Extra: extra}
	}
	o1 := rc.runJob(refPh, mk(refPh), 30*time.Minute, 0)
	if o1.Violation != nil {
		return o1.Violation, o1.ViolSeed
	}
	if o1.Summary == nil {
		return nil, 0
	}
	o2 := rc.runJob(cmpPh, mk(cmpPh), 30*time.Minute, 0)
	if o2.Violation != nil {
		return o2.Violation, o2.ViolSeed
	}
	return nil, 0
}

// reportDigestBlock: a difference between the two processes of the digest phases. First the
// plain in-process repetition (64 calls) is tried; then the two processes are run again over
// ever larger parts of the block, and the smallest part that shows a difference again is the
// replay file.
func (c *checker) reportDigestBlock(ph phase, raw json.RawMessage, class string, seed, lo, hi uint64) {
	finish := func(doc map[string]interface{}, note string) {
		doc["replay_phase"], doc["property"], doc["note"] = ph.Name, c.prop, note
		path, err := writeReplay(c.prop, encodeGeneric(doc), fmt.Sprintf("%s-seed%d", sanitize(class), seed))
		if err != nil {
			die2("cannot write replay: %v", err)
		}
		msg := ""
		if v, ok := doc["violation"].(map[string]interface{}); ok {
			msg, _ = v["message"].(string)
		}
		fmt.Printf("violation class: %s\n%s\n%s\n", class, msg, note)
		fmt.Printf("VIOLATION property=%s replay=%s\n", c.prop, path)
		c.violation, c.violClass = path, class
	}
	doc, _ := decodeGeneric(raw)
	single, _ := decodeGeneric(raw)
	delete(single, "block_lo")
	delete(single, "block_hi")
	if c.rc.evalCandidatesRepeated(ph, encodeGeneric(single), class) {
		finish(single, "repeating the call in one process shows the difference")
		return
	}
	blocks := [][2]uint64{{seed, seed + 1}, {seed, hi}, {lo, seed + 1}, {lo, hi}}
	for attempt := 0; attempt < 2; attempt++ {
		for _, b := range blocks {
			if v, s := c.rc.evalDigestBlock(c.plan, c.tier, b[0], b[1]); v != nil {
				d2, err := decodeGeneric(v)
				if err != nil {
					continue
				}
				d2["block_lo"], d2["block_hi"] = json.Number(strconv.FormatUint(b[0], 10)), json.Number(strconv.FormatUint(b[1], 10))
				finish(d2, fmt.Sprintf("the two processes of the digest phases differ again over the seeds %d..%d (first difference at seed %d); the replay runs both processes over that block", b[0], b[1]-1, s))
				return
			}
		}
	}
	die2("violation %s at seed %d (digest phases) did not show again when both processes were repeated over its block; refusing to report", class, seed)
	_ = doc
}

func (c *checker) report(ph phase, raw json.RawMessage, class string, seed uint64) {
	if lo, hi, ok := digestBlockOf(raw); ok {
		c.reportDigestBlock(ph, raw, class, seed, lo, hi)
		return
	}
	budget := 60 * time.Second
	if c.tier == "thorough" {
		budget = 240 * time.Second
	}
	// confirm in a fresh process before spending time on minimisation
	first := c.rc.evalCandidatesRepeated(ph, raw, class)
	if !first {
		// state kept across calls (caches, pools) can make a violation depend on what the
		// engine process evaluated before: retry with the preceding seeds as a prelude
		for _, k := range []int{1, 2, 4, 8, 16, 32} {
			doc, err := decodeGeneric(raw)
			if err != nil {
				break
			}
			doc["prelude"] = json.Number(strconv.Itoa(k))
			cand := encodeGeneric(doc)
			hit := false
			for attempt := 0; attempt < 3 && !hit; attempt++ {
				hit = c.rc.evalCandidatesRepeated(ph, cand, class)
			}
			if hit {
				raw, first = cand, true
				break
			}
		}
	}
	if !first && selfCertifying(class) {
		// a race report, the runtime's abort on unsynchronised map access or the goroutine
		// dump of a free-running call that never returned are evidence in themselves; that the
		// timing does not line up again in a few dozen repetitions does not take it back
		doc, _ := decodeGeneric(raw)
		doc["replay_phase"], doc["property"], doc["flaky"] = ph.Name, c.prop, true
		note := "timing-dependent: did not occur again in the repetitions of its workload; the replay repeats the workload (not minimised) and may need many attempts"
		doc["note"] = note
		path, err := writeReplay(c.prop, encodeGeneric(doc), fmt.Sprintf("%s-seed%d", sanitize(class), seed))
		if err != nil {
			die2("cannot write replay: %v", err)
		}
		msg := ""
		if v, ok := doc["violation"].(map[string]interface{}); ok {
			msg, _ = v["message"].(string)
		}
		fmt.Printf("violation class: %s\n%s\n%s\n", class, msg, note)
		fmt.Printf("VIOLATION property=%s replay=%s\n", c.prop, path)
		c.violation, c.violClass = path, class
		return
	}
	if !first {
		die2("violation %s at seed %d did not reproduce from its replay object in a fresh process; refusing to report (replay machinery trouble)", class, seed)
	}
	min, note := c.rc.minimise(ph, raw, class, budget)
	if !c.rc.evalCandidatesRepeated(ph, min, class) {
		// fall back to the unminimised file, which did reproduce
		min, note = raw, "minimised file did not reproduce in a fresh process; reporting the original"
	}
	doc, _ := decodeGeneric(min)
	doc["replay_phase"] = ph.Name
	doc["property"] = c.prop
	doc["note"] = note
	path, err := writeReplay(c.prop, encodeGeneric(doc), fmt.Sprintf("%s-seed%d", sanitize(class), seed))
	if err != nil {
		die2("cannot write replay: %v", err)
	}
	msg := ""
	if v, ok := doc["violation"].(map[string]interface{}); ok {
		msg, _ = v["message"].(string)
	}
	fmt.Printf("violation class: %s\n%s\n%s\n", class, msg, note)
	fmt.Printf("VIOLATION property=%s replay=%s\n", c.prop, path)
	c.violation, c.violClass = path, class
}

func sanitize(s string) string {
	var b strings.Builder
	for _, r := range s {
		if (r >= 'a' && r <= 'z') || (r >= 'A' && r <= 'Z') || (r >= '0' && r <= '9') || r == '-' {
			b.WriteRune(r)
		} else {
			b.WriteByte('_')
		}
	}
	if b.Len() > 60 {
		return b.String()[:60]
	}
	return b.String()
}

// evalCandidatesRepeated evaluates one replay object, several times for phases whose
// runs are not schedule-controlled (free-running race pass).
func (rc *runCtx) evalCandidatesRepeated(ph phase, raw json.RawMessage, class string) bool {
	n := 1
	if ph.Mode == "race" {
		n = 32
	} else if rc.flaky {
		n = 12
	}
	raws := make([]json.RawMessage, n)
	for i := range raws {
		raws[i] = raw
	}
	for _, r := range rc.evalCandidates(ph, raws, class) {
		if sameClass(r.Class, class) {
			return true
		}
	}
	return false
}

func (c *checker) writeEvidence(agg *aggregate, rule string, assumptions []string, components map[string][]string) {
	wall := time.Since(c.t0).Seconds()
	cov := map[string]interface{}{
		"evaluations":                         agg.Runs,
		"distinct_nontrivial":                 agg.Distinct,
		"rule":                                rule,
		"samples":                             agg.Samples,
		"nontrivial_runs":                     agg.NonTrivial,
		"seeds":                               agg.SeedRanges,
		"sim_steps":                           agg.Steps,
		"sim_time_s":                          float64(agg.SimTimeMs) / 1000,
		"faults_fired":                        agg.Fired,
		"probes":                              agg.Probes,
		"oracle_counts":                       agg.Oracles,
		"components":                          components,
		"phases":                              c.phasesRun,
		"inventory":                           inventorySummary(c.rc.info),
		"uncontrolled_sources":                c.rc.info.Inventory["uncontrolled_sources"],
		"instrumentation_fidelity_repo_tests": fidelitySummary(c.rc.info),
		"known_findings_observed":             c.knownSeen,
	}
	if len(agg.MapSites) > 0 {
		cov["effective_permutations_per_map_site"] = agg.MapSites
	}
	if wall > 0 {
		cov["runs_per_hour"] = int64(float64(agg.Runs) / wall * 3600)
	}
	if c.selftest != nil {
		cov["determinism_selftest"] = c.selftest
	}
	if c.racePass != nil {
		cov["race_pass"] = c.racePass
	}
	for k, v := range c.extraCov {
		cov[k] = v
	}
	if len(agg.Samples) == 0 {
		cov["samples"] = []interface{}{"no sample collected"}
	}
	viol := 0
	if c.violation != "" {
		viol = 1
		cov["violation_replay"] = c.violation
		cov["violation_class"] = c.violClass
	}
	ev := map[string]interface{}{
		"property_id": c.prop,
		"tier":        c.tier,
		"seed":        c.seed,
		"level":       "exploration",
		"coverage":    cov,
		"assumptions": assumptions,
		"wall_s":      wall,
		"violations":  viol,
	}
	// evidence under /verif/evidence describes runs against /repo itself; a run against
	// another tree (VERIF_REPO, mutant runs) writes its evidence elsewhere
	evDir := verifDir + "/evidence"
	if os.Getenv("VERIF_REPO") != "" {
		evDir = os.TempDir() + "/verif-mutant-evidence"
	}
	fmt.Printf("%s %s: %d evaluations (%d distinct non-trivial) in %.0fs, violations=%d\n", c.prop, c.tier, agg.Runs, agg.Distinct, wall, viol)
	os.MkdirAll(evDir, 0o755)
	b, _ := json.MarshalIndent(ev, "", " ")
	if err := os.WriteFile(evDir+"/"+c.prop+".json", b, 0o644); err != nil {
		die2("cannot write evidence: %v", err)
	}
}

func inventorySummary(info *buildInfo) map[string]interface{} {
	out := map[string]interface{}{}
	for _, k := range []string{"map_sites", "maps_keys_sites", "yield_sites", "go_start_sites", "mutex_sites", "approximated"} {
		if l, ok := info.Inventory[k].([]interface{}); ok {
			out[k] = len(l)
		}
	}
	return out
}

func fidelitySummary(info *buildInfo) map[string]string {
	out := map[string]string{}
	for k, v := range info.Fidelity {
		if strings.HasPrefix(v, "FAIL") {
			out[k] = "FAIL"
		} else {
			out[k] = v
		}
	}
	return out
}

func (c *checker) notePhase(ph phase, outs []workerOutcome, wall float64) {
	var runs int64
	for _, o := range outs {
		if o.Summary != nil {
			runs += o.Summary.Runs
		}
	}
	c.phasesRun = append(c.phasesRun, map[string]interface{}{
		"name": ph.Name, "engine_build": ph.Build, "mode": ph.Mode, "mix": ph.Mix, "workers": len(outs), "runs": runs, "wall_s": wall,
	})
}

func main() {
	if len(os.Args) < 2 {
		die2("usage: driver check <property> <quick|thorough> | replay <file> | setup")
	}
	switch os.Args[1] {
	case "setup":
		if _, err := ensureBuild([]string{"pipesim", "pipesim-race", "snapsim", "snapsim-plain", "gpkgsim", "toolsim", "toolsim-race"}); err != nil {
			die2("%v", err)
		}
		fmt.Println("setup ok")
	case "check":
		if len(os.Args) < 4 {
			die2("usage: driver check <property> <quick|thorough>")
		}
		code := runCheck(os.Args[2], os.Args[3])
		runCleanups()
		os.Exit(code)
	case "replay":
		if len(os.Args) < 3 {
			die2("usage: driver replay <file>")
		}
		code := runReplay(os.Args[2])
		runCleanups()
		os.Exit(code)
	default:
		die2("unknown command %q", os.Args[1])
	}
}

func seedFromEnv() uint64 {
	s := os.Getenv("VERIF_SEED")
	if s == "" {
		return 1
	}
	v, err := strconv.ParseUint(s, 10, 64)
	if err != nil {
		// any string is a seed: hash it
		var h uint64 = 1469598103934665603
		for i := 0; i < len(s); i++ {
			h = (h ^ uint64(s[i])) * 1099511628211
		}
		return h % 1_000_000_000
	}
	return v % 18_000_000_000 // keeps seed*1e9 + offsets inside uint64
}

func runCheck(prop, tier string) int {
	if t := os.Getenv("VERIF_TIER"); t != "" && (t == "quick" || t == "thorough") && tier == "" {
		tier = t
	}
	if tier != "quick" && tier != "thorough" {
		die2("tier must be quick or thorough")
	}
	plan, ok := plans[prop]
	if !ok {
		die2("no check for property %s (see MANIFEST.json not_applicable)", prop)
	}
	t0 := time.Now()
	info, err := ensureBuild(plan.builds(tier))
	if err != nil {
		die2("%v", err)
	}
	seed := seedFromEnv()
	rc, err := newRunCtx(info, prop, tier, seed)
	if err != nil {
		die2("%v", err)
	}
	defer rc.cleanup()
	c := &checker{rc: rc, prop: prop, tier: tier, seed: seed, t0: t0, known: loadKnown(), knownSeen: map[string]int64{}, extraCov: map[string]interface{}{}, plan: plan}
	rc.known = c.knownSigs()
	fmt.Printf("check %s %s: VERIF_SEED=%d build=%s\n", prop, tier, seed, info.Key)
	code := plan.run(c)
	for _, k := range c.known {
		if k.Property == prop && c.knownSeen[k.Sig] > 0 {
			fmt.Printf("KNOWN-FINDING: property=%s %s (sig=%s, observed %d times)\n", prop, k.Text, k.Sig, c.knownSeen[k.Sig])
		}
	}
	return code
}

func runReplay(path string) int {
	raw, err := os.ReadFile(path)
	if err != nil {
		die2("%v", err)
	}
	doc, err := decodeGeneric(raw)
	if err != nil {
		die2("%v", err)
	}
	prop, _ := doc["property"].(string)
	phName, _ := doc["replay_phase"].(string)
	plan, ok := plans[prop]
	if !ok {
		die2("replay file names unknown property %q", prop)
	}
	class := ""
	if v, ok := doc["violation"].(map[string]interface{}); ok {
		class, _ = v["class"].(string)
	}
	tier := "quick"
	ph, ok := plan.phase(phName, tier)
	if !ok {
		die2("replay file names unknown phase %q", phName)
	}
	if phName == "fidelity" {
		info, err := ensureBuild(nil)
		if err != nil {
			die2("%v", err)
		}
		pol, _ := doc["policy"].(string)
		if strings.HasPrefix(info.Fidelity[pol], "FAIL") {
			fmt.Printf("replay: the repository's tests fail inside the instrumented copy under map order %s\n%s\n", pol, tail(info.Fidelity[pol], 3000))
			fmt.Printf("VIOLATION property=%s replay=%s\n", prop, path)
			return 1
		}
		fmt.Println("replay: the repository's tests pass under map order " + pol)
		return 0
	}
	blo, bhi, isBlock := digestBlockOf(raw)
	builds := []string{ph.Build}
	if isBlock {
		builds = plan.builds(tier)
	}
	info, err := ensureBuild(builds)
	if err != nil {
		die2("%v", err)
	}
	rc, err := newRunCtx(info, prop, tier, 1)
	if err != nil {
		die2("%v", err)
	}
	defer rc.cleanup()
	if isBlock {
		for attempt := 1; attempt <= 3; attempt++ {
			if v, s := rc.evalDigestBlock(plan, tier, blo, bhi); v != nil {
				d2, _ := decodeGeneric(v)
				msg := ""
				if vv, ok := d2["violation"].(map[string]interface{}); ok {
					msg, _ = vv["message"].(string)
				}
				fmt.Printf("replay attempt %d: reproduced %s at seed %d of the block %d..%d\n%s\n", attempt, class, s, blo, bhi-1, msg)
				fmt.Printf("VIOLATION property=%s replay=%s\n", prop, path)
				return 1
			}
		}
		fmt.Printf("replay: the two processes of the digest phases agree over the block %d..%d on this tree\n", blo, bhi-1)
		return 0
	}
	n := 1
	if ph.Mode == "race" {
		n = 32
	} else if fl, _ := doc["flaky"].(bool); fl || prop == "C07" {
		n = 12
	}
	raws := make([]json.RawMessage, n)
	for i := range raws {
		raws[i] = raw
	}
	rs := rc.evalCandidates(ph, raws, class)
	for i, r := range rs {
		if !r.Ran {
			continue
		}
		if class != "" && sameClass(r.Class, class) {
			fmt.Printf("replay attempt %d: reproduced %s\n%s\n", i+1, r.Class, r.Message)
			for _, l := range r.Trace {
				fmt.Println("  " + l)
			}
			fmt.Printf("VIOLATION property=%s replay=%s\n", prop, path)
			return 1
		}
		if r.Class != "" {
			fmt.Printf("replay attempt %d: a different outcome: %s %s\n", i+1, r.Class, r.Message)
		}
	}
	fmt.Printf("replay: the recorded violation (%s) did not occur on this tree\n", class)
	return 0
}
