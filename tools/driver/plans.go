package main

import (
	"encoding/json"
	"fmt"
	"os"
	"sort"
	"strings"
	"sync"
	"time"
)

type plan struct {
	builds func(tier string) []string
	run    func(c *checker) int
	phase  func(name, tier string) (phase, bool)
}

var plans = map[string]plan{}

func init() {
	plans["C10"] = pipesimPlan("C10")
	plans["C11"] = pipesimPlan("C11")
	plans["C07"] = snapsimPlan()
	plans["C12"] = gpkgsimPlan()
	plans["C13"] = toolsimPlan()
}

func runTimed(c *checker, ph phase) ([]workerOutcome, bool) {
	t := time.Now()
	outs := c.rc.runPhase(ph)
	c.notePhase(ph, outs, time.Since(t).Seconds())
	return outs, c.handle(ph, outs)
}

// ------------------------------------------------------------------------------------
// determinism self-test: the same seeds in several fresh processes at several
// GOMAXPROCS values must produce identical digests and traces.

func (c *checker) determinismSelftest(ph phase, seeds uint64) {
	type key struct{ seed, field string }
	ref := map[string]string{}
	runs, mismatches := 0, 0
	procs, hung := 0, 0
	var firstMismatch string
	for _, gmp := range []int{1, 4, 16} {
		for rep := 0; rep < 2; rep++ {
			if hung >= 2 {
				continue // no point in waiting for the remaining configurations
			}
			p := ph
			p.Mode = "selftest"
			p.GoMaxProcs = gmp
			job := Job{Engine: p.Engine, Property: c.prop, Mix: p.Mix, Mode: "selftest", Tier: c.tier,
				SeedLo: c.seed * 1_000_000_000, SeedHi: c.seed*1_000_000_000 + seeds, Extra: p.Extra}
			o := c.rc.runJob(p, job, 2*time.Minute, 0)
			procs++
			if o.Killed {
				// the engine process hangs (e.g. the code under test blocks on a channel made at
				// package initialisation, outside any bubble, which synctest cannot see as a
				// block): leave these seeds to the explore phase
				hung++
				continue
			}
			if o.Violation != nil {
				// handled by the explore phase (same seeds are explored there too)
				continue
			}
			if o.Summary == nil {
				if o.HasLast && o.Exit != 3 && !o.Killed {
					// a run killed the process (panic / log.Fatal in the code under test): the
					// explore phase runs the same seeds and reports it with a replay file
					continue
				}
				die2("determinism self-test: engine process ended with exit %d (GOMAXPROCS=%d): %s", o.Exit, gmp, o.Stderr)
			}
			for _, l := range o.Lines {
				var t string
				json.Unmarshal(l["t"], &t)
				if t != "digest" {
					continue
				}
				k := string(l["seed"])
				v := string(l["digest"]) + "/" + string(l["steps"]) + "/" + string(l["trace_hash"])
				runs++
				if r, ok := ref[k]; !ok {
					ref[k] = v
				} else if r != v {
					mismatches++
					if firstMismatch == "" {
						firstMismatch = fmt.Sprintf("seed %s: %s vs %s (GOMAXPROCS=%d)", k, r, v, gmp)
					}
				}
			}
		}
	}
	c.selftest = map[string]interface{}{"seeds": seeds, "processes": procs, "gomaxprocs": []int{1, 4, 16}, "runs": runs, "mismatches": mismatches}
	if hung > 0 {
		c.selftest["processes_killed_by_watchdog"] = hung
		fmt.Printf("warning: determinism self-test: %d engine processes hung and were killed\n", hung)
	}
	if mismatches > 0 {
		if u := uncontrolledSelects(c.rc.info); len(u) > 0 {
			// the tree under test contains select statements with several cases; which ready
			// case Go picks is the one source of nondeterminism the simulator cannot own.
			// Runs are still legal executions; replays are attempted several times.
			c.selftest["note"] = fmt.Sprintf("%d mismatching runs, attributed to select statements with several cases that simgen cannot make deterministic: %v", mismatches, u)
			fmt.Printf("warning: determinism self-test: %d mismatching runs (uncontrolled select at %v); replays of this tree are attempted repeatedly\n", mismatches, u)
			c.rc.flaky = true
			return
		}
		die2("determinism self-test failed: %d mismatching runs, first: %s", mismatches, firstMismatch)
	}
}

// ------------------------------------------------------------------------------------
// pipesim: C10 and C11

func pipesimPhases(prop, tier string) map[string]phase {
	q := tier == "quick"
	sel := func(a, b float64) float64 {
		if q {
			return a
		}
		return b
	}
	m := map[string]phase{}
	m["explore"] = phase{Name: "explore", Build: "pipesim", TestRun: "^TestVerifPipesim$", Engine: "pipesim", Mode: "explore",
		Mix: prop, BudgetS: sel(25, 420), Workers: 16, Samples: 3}
	// C10 also looks at the other property's mix for a while and vice versa: the oracles are the same
	other := "C10"
	if prop == "C10" {
		other = "C11"
	}
	m["explore-other-mix"] = phase{Name: "explore-other-mix", Build: "pipesim", TestRun: "^TestVerifPipesim$", Engine: "pipesim", Mode: "explore",
		Mix: other, BudgetS: sel(6, 120), Workers: 16, SeedStride: 10_000_000, SeedOffset: 500_000_000}
	m["race"] = phase{Name: "race", Build: "pipesim-race", TestRun: "^TestVerifPipesim$", Engine: "pipesim-free", Mode: "race",
		Mix: prop, BudgetS: sel(8, 120), Workers: 16}
	return m
}

func pipesimPlan(prop string) plan {
	return plan{
		builds: func(tier string) []string { return []string{"pipesim", "pipesim-race"} },
		phase: func(name, tier string) (phase, bool) {
			p, ok := pipesimPhases(prop, tier)[name]
			return p, ok
		},
		run: func(c *checker) int {
			phs := pipesimPhases(prop, c.tier)
			agg := newAggregate()
			rule := "one evaluation = one simulated run of the real processing.ProcessFeatures under the seeded scheduler: workload " +
				"(targets, feature stream, snapping outcome table, slowness knobs), fault plan, map-order policy and every scheduling decision " +
				"derive from the run's seed. Non-trivial = at least one feature and at least one scheduling step with two or more enabled " +
				"goroutines. Distinct = distinct run digests (hash of workload, every scheduling decision with its site and enabled-set size, " +
				"every delivery, every effective map permutation) among non-trivial runs, counted over all worker processes."
			assumptions := []string{
				"sampling, not proof: a clean batch is evidence about the seeds explored",
				"scheduling points are the synchronisation and I/O operations found by simgen plus the fakes' own yields; code between two scheduling points runs atomically in the simulation (the free-running -race pass covers unsynchronised access between them)",
				"Source, Target and the snap function are stubs behind the repository's own interfaces; the fakes never mutate what they are handed",
				"the Go runtime, testing/synctest (fake clock, quiescence detection) and the race detector are trusted",
			}
			components := map[string][]string{
				"real": {"processing.ProcessFeatures", "processing.processFeatures", "processing.processMultiPolygon", "processing.writeFeaturesToTargets", "processing.featureForTileMatrixWrapper", "Go channels / sync.WaitGroup (real, scheduled by the simulator at every operation)"},
				"stub": {"processing.Source (fake reader)", "processing.Target (fake writers with simulated final flush)", "snap function (outcome table)"},
			}
			finish := func(code int) int {
				c.writeEvidence(agg, rule, assumptions, components)
				return code
			}
			// 1. determinism self-test
			nSeeds := uint64(8)
			if c.tier == "thorough" {
				nSeeds = 64
			}
			c.determinismSelftest(phs["explore"], nSeeds)

			// 2. simulated exploration
			for _, name := range []string{"explore", "explore-other-mix"} {
				outs, bad := runTimed(c, phs[name])
				agg.add(outs)
				if bad {
					return finish(1)
				}
			}
			// 3. free-running race pass (C11's "no unsynchronised sharing"; for C10 a short one
			// because a data race can corrupt a delivery)
			ph := phs["race"]
			if prop == "C10" {
				ph.BudgetS = ph.BudgetS / 2
			}
			gmps := []int{1, 4, 16}
			t := time.Now()
			// three groups of workers at GOMAXPROCS 1 / 4 / 16, disjoint seed ranges, in parallel
			groups := make([][]workerOutcome, len(gmps))
			var gwg sync.WaitGroup
			for gi, g := range gmps {
				gwg.Add(1)
				go func(gi, g int) {
					defer gwg.Done()
					p := ph
					p.GoMaxProcs = g
					p.Workers = 6
					if g == 16 {
						p.Workers = 2
					}
					rc2 := *c.rc
					rc2.seed = c.rc.seed*10 + uint64(gi+1)
					groups[gi] = rc2.runPhase(p)
				}(gi, g)
			}
			gwg.Wait()
			var outs []workerOutcome
			for _, g := range groups {
				outs = append(outs, g...)
			}
			c.notePhase(ph, outs, time.Since(t).Seconds())
			var raceRuns int64
			for _, o := range outs {
				if o.Summary != nil {
					raceRuns += o.Summary.Runs
				}
			}
			c.racePass = map[string]interface{}{"mode": "free-running (no scheduler, yields are no-ops), -race build, GORACE=halt_on_error", "gomaxprocs": gmps, "runs": raceRuns,
				"note": "not schedule-replayable: a report is replayed by re-running its workload up to 32 times"}
			if c.handle(ph, outs) {
				return finish(1)
			}
			return finish(0)
		},
	}
}

func keysOf(m map[string]phase) string {
	var k []string
	for n := range m {
		k = append(k, n)
	}
	sort.Strings(k)
	return strings.Join(k, ",")
}

// ------------------------------------------------------------------------------------
// snapsim: C07

func snapsimPhases(tier string) map[string]phase {
	q := tier == "quick"
	sel := func(a, b float64) float64 {
		if q {
			return a
		}
		return b
	}
	m := map[string]phase{}
	m["explore"] = phase{Name: "explore", Build: "snapsim", TestRun: "^TestVerifSnapsim$", Engine: "snapsim", Mode: "explore",
		BudgetS: sel(40, 600), Workers: 16, Samples: 3}
	per := uint64(1500)
	if !q {
		per = 40000
	}
	m["reference-digests"] = phase{Name: "reference-digests", Build: "snapsim", TestRun: "^TestVerifSnapsim$", Engine: "snapsim", Mode: "digests",
		Workers: 16, MaxSeeds: per, Extra: map[string]string{"order": "sorted", "role": "reference"}}
	m["process-repetition"] = phase{Name: "process-repetition", Build: "snapsim-plain", TestRun: "^TestVerifSnapsim$", Engine: "snapsim-plain", Mode: "digests",
		Workers: 16, MaxSeeds: per, Extra: map[string]string{"repeat": "3", "role": "compare", "reverse": "1"}}
	return m
}

func snapsimPlan() plan {
	return plan{
		builds: func(tier string) []string { return []string{"snapsim", "snapsim-plain"} },
		phase: func(name, tier string) (phase, bool) {
			if name == "fidelity" {
				return phase{Name: "fidelity"}, true
			}
			if name == "explore-race-build" {
				p := snapsimPhases(tier)["explore"]
				p.Name, p.Build = name, "snapsim-race"
				return p, true
			}
			p, ok := snapsimPhases(tier)[name]
			return p, ok
		},
		run: func(c *checker) int {
			phs := snapsimPhases(c.tier)
			agg := newAggregate()
			rule := "one evaluation = one generated (polygon, tile matrix set, id list, flags) snapped under the canonical sorted map-iteration order and then under " +
				"4 (quick) / 12 (thorough) other exact iteration orders at every map site with the id list permuted (oracle 1), with a subset of input rings reversed " +
				"(oracle 3, valid polygons) and with the reverse-winding flag flipped (oracle 4, valid polygons); a separate phase compares result digests of the instrumented " +
				"library with the un-instrumented library in fresh processes, three repetitions each (oracle 2). Non-trivial = at least one map with two or more keys was " +
				"handed out in a non-sorted order during the evaluation (an effective permutation). Distinct = distinct inputs (hash of the generated input) among non-trivial evaluations."
			assumptions := []string{
				"sampling, not proof",
				"every order the seam produces is a legal Go execution (the language leaves map iteration order unspecified); map iteration inside third-party packages (orderedmap, sortedmap, go-spatial) is not behind the seam and is covered only by the process-repetition phase",
				"ring-direction and reverse-flag oracles are evaluated on polygons that are valid by construction and re-validated with exact integer arithmetic on the generation lattice; ring comparison there is up to rotation of the ring",
				"a panic of SnapPolygon is not a C07 matter; it is only required to occur under every order alike",
			}
			components := map[string][]string{
				"real": {"snap.SnapPolygon and everything below it (pointindex, morton, intgeom, geomhelp, mapslicehelp, tms20)"},
				"stub": {"none (the map-iteration order at the module's own range statements is decided by the simulator; the plain build runs with Go's own randomisation)"},
			}
			finish := func(code int) int {
				c.writeEvidence(agg, rule, assumptions, components)
				return code
			}
			// instrumentation fidelity doubles as a C07 oracle: the repo's own tests must not
			// depend on the iteration order either
			for pol, res := range c.rc.info.Fidelity {
				if strings.HasPrefix(res, "FAIL") {
					class := "determinism/repo-test-under-map-order"
					if c.isKnown(class) {
						c.knownSeen[class]++
						continue
					}
					doc := map[string]interface{}{"property": "C07", "engine": "fidelity", "replay_phase": "fidelity", "policy": pol,
						"violation": map[string]interface{}{"class": class, "message": "the repository's own test suite fails inside the instrumented copy when maps are iterated in order " + pol + ":\n" + tail(res, 3000)}}
					path, err := writeReplay("C07", encodeGeneric(doc), "repo-tests-"+sanitize(pol))
					if err != nil {
						die2("%v", err)
					}
					fmt.Printf("violation class: %s\n%s\n", class, tail(res, 3000))
					fmt.Printf("VIOLATION property=C07 replay=%s\n", path)
					c.violation, c.violClass = path, class
					return finish(1)
				}
			}
			// what C07 hunts is nondeterminism; part of it (map iteration inside third-party
			// packages, goroutine timing) is outside the simulator's reach and shows only with some
			// probability per call, so a replay of a C07 finding is attempted up to 12 times
			c.rc.flaky = true
			// goroutines inside the snapping packages? (none in the pinned tree)
			explorePh := phs["explore"]
			concurrent := snapHasGoroutines(c.rc.info)
			if concurrent {
				explorePh.Extra = map[string]string{"concurrent": "1"}
				c.extraCov["snapping_code_starts_goroutines"] = "yes: every input is also snapped under three seeded schedules (oracle 6), a -race build runs the same inputs, and replays of unscheduled calls are attempted repeatedly"
				c.rc.flaky = true
				// unsynchronised sharing between those goroutines makes the result a matter of
				// timing; the race detector finds it without timing luck
				if _, err := ensureBuild([]string{"snapsim-race"}); err != nil {
					die2("%v", err)
				}
				racePh := explorePh
				racePh.Name, racePh.Build, racePh.BudgetS, racePh.SeedOffset = "explore-race-build", "snapsim-race", explorePh.BudgetS/2, 400_000_000
				outs, bad := runTimed(c, racePh)
				agg.add(outs)
				if bad {
					return finish(1)
				}
			}
			outs, bad := runTimed(c, explorePh)
			agg.add(outs)
			if bad {
				return finish(1)
			}
			refDir := c.rc.scratch + "/refdigests"
			os.MkdirAll(refDir, 0o755)
			for _, name := range []string{"reference-digests", "process-repetition"} {
				ph := phs[name]
				ph.Extra["ref_dir"] = refDir
				ph.SeedOffset = 700_000_000
				reps := 1
				if name == "process-repetition" && c.tier == "thorough" {
					reps = 3 // three generations of fresh processes
				}
				for r := 0; r < reps; r++ {
					outs, bad := runTimed(c, ph)
					if bad {
						return finish(1)
					}
					var n int64
					for _, o := range outs {
						if o.Summary != nil {
							n += o.Summary.Runs
						}
					}
					if name == "process-repetition" {
						agg.Oracles["oracle2-process-repetition-inputs-compared"] += n
					}
				}
			}
			return finish(0)
		},
	}
}

// ------------------------------------------------------------------------------------
// gpkgsim: C12

func gpkgsimPhases(tier string) map[string]phase {
	b := 30.0
	if tier != "quick" {
		b = 600
	}
	return map[string]phase{
		"explore": {Name: "explore", Build: "gpkgsim", TestRun: "^TestVerifGpkgsim$", Engine: "gpkgsim", Mode: "explore", BudgetS: b, Workers: 16, Samples: 2},
	}
}

func gpkgsimPlan() plan {
	return plan{
		builds: func(tier string) []string { return []string{"gpkgsim"} },
		phase: func(name, tier string) (phase, bool) {
			p, ok := gpkgsimPhases(tier)[name]
			return p, ok
		},
		run: func(c *checker) int {
			phs := gpkgsimPhases(c.tier)
			agg := newAggregate()
			rule := "one evaluation = one simulated run: a generated table (name, 0-4 attribute columns of INTEGER/REAL/TEXT flavours, nullable or not, geometry column anywhere after the key, one of six geometry types, " +
				"one of four spatial reference systems), a page size 1..40 and a feature count 0..3*pagesize+1 drawn so that every relation (0, <p, =p, k*p, k*p+1, k*p-1, 3p+1) occurs; the real TargetGeopackage writes " +
				"real SQLite files in tmpfs, either fed directly by a simulated reader or through the real ProcessFeatures pipeline with 1..3 writers flushing concurrently, under the seeded scheduler; every target " +
				"file is read back with the harness's own GeoPackage decoder and compared with the model (rows in order with SQLite value types, blob header, R*Tree entries, gpkg_contents extent, gpkg_geometry_columns, " +
				"PRAGMA table_info, SRS row). Non-trivial = at least one feature. Distinct = distinct (workload, schedule) digests among non-trivial runs."
			assumptions := []string{
				"sampling, not proof",
				"the SpatiaLite extension is replaced by five pure-Go SQL functions (ST_IsEmpty, ST_MinX/MaxX/MinY/MaxY) registered under the driver name go-spatial looks for; everything else (SQLite 3.42 with R*Tree, database/sql, go-sqlite3, go-spatial's gpkg package) is real",
				"attribute columns stay within the property's quantifier (integer, real, text, NULL); BOOLEAN/DATE/DATETIME/BLOB columns are outside it and not generated",
				"no disk faults are injected: the writer has no recovery path and the property is not quantified over faults",
			}
			components := map[string][]string{
				"real": {"gpkg.SourceGeopackage.Init/GetTableInfo/Close", "gpkg.TargetGeopackage.Init/CreateTables/WriteFeatures/Close", "processing.ProcessFeatures (pipeline mode)", "go-spatial encoding/gpkg", "database/sql", "mattn/go-sqlite3 + SQLite 3.42 on tmpfs files"},
				"stub": {"spatialite SQL functions (pure Go)", "feature producer (simulated reader)", "snap function (pipeline mode: keep-and-shift or drop per tile matrix)"},
			}
			c.determinismSelftest(phs["explore"], map[string]uint64{"quick": 6, "thorough": 40}[c.tier])
			outs, bad := runTimed(c, phs["explore"])
			agg.add(outs)
			code := 0
			if bad {
				code = 1
			}
			c.writeEvidence(agg, rule, assumptions, components)
			return code
		},
	}
}

// ------------------------------------------------------------------------------------
// toolsim: C13

func toolsimPhases(tier string) map[string]phase {
	q := tier == "quick"
	sel := func(a, b float64) float64 {
		if q {
			return a
		}
		return b
	}
	return map[string]phase{
		"explore": {Name: "explore", Build: "toolsim", TestRun: "^TestVerifToolsim$", Engine: "toolsim", Mode: "explore", BudgetS: sel(40, 720), Workers: 16, Samples: 2},
		"race":    {Name: "race", Build: "toolsim-race", TestRun: "^TestVerifToolsim$", Engine: "toolsim-free", Mode: "race", BudgetS: sel(12, 180), Workers: 8, GoMaxProcs: 4, SeedOffset: 300_000_000},
		"binary":  {Name: "binary", Build: "toolsim", TestRun: "^TestVerifToolsim$", Engine: "toolsim-binary", Mode: "binary", Workers: int(sel(8, 16)), MaxSeeds: uint64(sel(16, 64)), SeedOffset: 600_000_000},
	}
}

func toolsimPlan() plan {
	return plan{
		builds: func(tier string) []string { return []string{"toolsim", "toolsim-race", "texel-bin"} },
		phase: func(name, tier string) (phase, bool) {
			p, ok := toolsimPhases(tier)[name]
			return p, ok
		},
		run: func(c *checker) int {
			phs := toolsimPhases(c.tier)
			agg := newAggregate()
			rule := "one evaluation = one simulated run of the whole tool: a generated source GeoPackage (1-4 feature tables of POLYGON / MULTIPOLYGON / POINT / LINESTRING / MULTIPOINT / MULTILINESTRING with 0-30 rows and " +
				"0-4 attribute columns, optionally a non-spatial table), one of the seven built-in tile matrix sets that pass validation, 1-4 ids in any order, page size 1-50, keep / ignore-outside / reverse flags in short and " +
				"long spellings and all boolean forms, a target path over [A-Za-z0-9_.-] with 0-2 directories, and pre-existing target files (none with overwrite on or off; an earlier GeoPackage, a truncated one, an empty " +
				"file or random bytes with overwrite on); main() runs in-process under the seeded scheduler; afterwards the directory listing and every target file are compared with the model (geometry = snap.SnapPolygon " +
				"called directly). Non-trivial = at least one feature table. Distinct = distinct (workload, schedule) digests among non-trivial runs."
			assumptions := []string{
				"sampling, not proof",
				"the snapping library is the stated reference for geometry: the model calls snap.SnapPolygon itself (sorted map order); inputs on which the library panics are skipped (totality is not this property)",
				"SpatiaLite replaced by five pure-Go SQL functions behind the driver name go-spatial looks for; SQLite, database/sql, go-sqlite3, go-spatial and urfave/cli are real",
				"attribute columns stay within integer / real / text / NULL; outside-grid polygons are generated only together with the ignore flag in simulated runs",
				"gpkg_contents.last_change (wall clock of SQLite) is not compared",
			}
			components := map[string][]string{
				"real": {"main() incl. flag parsing (urfave/cli), validateTileMatrixSet, injectSuffixIntoPath, initGPKGTarget", "gpkg.SourceGeopackage / TargetGeopackage", "processing.ProcessFeatures", "snap.SnapPolygon", "go-spatial gpkg, database/sql, go-sqlite3, SQLite 3.42 (tmpfs files)"},
				"stub": {"spatialite SQL functions (pure Go)"},
			}
			finish := func(code int) int {
				c.writeEvidence(agg, rule, assumptions, components)
				return code
			}
			c.determinismSelftest(phs["explore"], map[string]uint64{"quick": 4, "thorough": 32}[c.tier])
			outs, bad := runTimed(c, phs["explore"])
			agg.add(outs)
			if bad {
				return finish(1)
			}
			t := time.Now()
			ph := phs["race"]
			routs := c.rc.runPhase(ph)
			c.notePhase(ph, routs, time.Since(t).Seconds())
			var raceRuns int64
			for _, o := range routs {
				if o.Summary != nil {
					raceRuns += o.Summary.Runs
				}
			}
			c.racePass = map[string]interface{}{"mode": "free-running main() in a -race build (no scheduler), same workloads and model", "gomaxprocs": 4, "runs": raceRuns,
				"note": "not schedule-replayable: a report is replayed by re-running its workload up to 32 times"}
			if c.handle(ph, routs) {
				return finish(1)
			}
			// real-binary cross-check (fidelity of the simulation, not the deciding step): the
			// un-instrumented tree built with the shipped toolchain, run as a subprocess
			bp := phs["binary"]
			bp.Extra = map[string]string{"binary": c.rc.info.Dir + "/texel-verif"}
			t = time.Now()
			bouts := c.rc.runPhase(bp)
			c.notePhase(bp, bouts, time.Since(t).Seconds())
			var binRuns int64
			bprobes := Counter{}
			for _, o := range bouts {
				if o.Summary != nil {
					binRuns += o.Summary.Runs
					bprobes.Merge(o.Summary.Probes)
				}
			}
			c.extraCov["real_binary_cross_check"] = map[string]interface{}{"runs": binRuns, "toolchain": "default go (un-instrumented tree + stub driver file)",
				"outside_grid_without_ignore_flag_runs": bprobes["binary:outside-grid-without-ignore-flag"]}
			if c.handle(bp, bouts) {
				return finish(1)
			}
			return finish(0)
		},
	}
}

func uncontrolledSelects(info *buildInfo) []string {
	var out []string
	if l, ok := info.Inventory["uncontrolled_sources"].([]interface{}); ok {
		for _, e := range l {
			if s, ok := e.(string); ok && strings.Contains(s, "select-with-several-cases") {
				out = append(out, s)
			}
		}
	}
	return out
}

// snapHasGoroutines: does the instrumented tree start goroutines inside the snapping
// packages (go statements or spawn-like calls found by simgen)?
func snapHasGoroutines(info *buildInfo) bool {
	l, _ := info.Inventory["go_start_sites"].([]interface{})
	for _, e := range l {
		if s, ok := e.(string); ok {
			for _, p := range []string{"snap/", "pointindex/", "geomhelp/", "mapslicehelp/", "intgeom/", "morton/", "mathhelp/", "tms20/"} {
				if strings.HasPrefix(s, p) {
					return true
				}
			}
		}
	}
	return false
}
