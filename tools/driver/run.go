package main

import (
	"bufio"
	"bytes"
	"encoding/json"
	"fmt"
	"os"
	"os/exec"
	"path/filepath"
	"sort"
	"strconv"
	"strings"
	"sync"
	"time"
)

// Job mirrors overlay/internal/simh.Job.
type Job struct {
	Engine     string            `json:"engine"`
	Property   string            `json:"property"`
	Mix        string            `json:"mix"`
	Mode       string            `json:"mode"`
	Tier       string            `json:"tier"`
	SeedLo     uint64            `json:"seed_lo"`
	SeedHi     uint64            `json:"seed_hi"`
	BudgetS    float64           `json:"budget_s"`
	Out        string            `json:"out"`
	Candidates []json.RawMessage `json:"candidates,omitempty"`
	WantClass  string            `json:"want_class,omitempty"`
	Samples    int               `json:"samples"`
	Scratch    string            `json:"scratch"`
	Extra      map[string]string `json:"extra,omitempty"`
}

type Counter map[string]int64

func (c Counter) Merge(o Counter) {
	for k, v := range o {
		c[k] += v
	}
}

type Summary struct {
	T            string            `json:"t"`
	Engine       string            `json:"engine"`
	Mode         string            `json:"mode"`
	SeedLo       uint64            `json:"seed_lo"`
	SeedNext     uint64            `json:"seed_next"`
	Runs         int64             `json:"runs"`
	NonTrivial   int64             `json:"nontrivial_runs"`
	DigestsTotal int64             `json:"digests_total"`
	Steps        int64             `json:"steps"`
	SimTimeMs    int64             `json:"sim_time_ms"`
	Fired        Counter           `json:"fired"`
	Probes       Counter           `json:"probes"`
	Oracles      Counter           `json:"oracles"`
	Samples      []json.RawMessage `json:"samples"`
	WallS        float64           `json:"wall_s"`
	MapSites     Counter           `json:"map_sites,omitempty"`
	Notes        []string          `json:"notes,omitempty"`
}

// phase is one batch of engine processes.
type phase struct {
	Name       string
	Build      string // key of engineBuilds
	TestRun    string
	Engine     string
	Mode       string
	Mix        string
	BudgetS    float64
	Workers    int
	SeedStride uint64
	SeedOffset uint64
	MaxSeeds   uint64 // per worker; 0 = stride
	GoMaxProcs int
	Samples    int
	Extra      map[string]string
	ExtraEnv   []string
}

type workerOutcome struct {
	Worker     int
	Exit       int
	Killed     bool
	Summary    *Summary
	Violation  json.RawMessage // replay object
	ViolSeed   uint64
	LastStart  string // "seed 123" / "cand 4" of the run in flight when the process ended without summary
	LastSeed   uint64
	HasLast    bool
	Stderr     string
	RunLog     string
	Lines      []map[string]json.RawMessage
	OutPath    string
	DigestPath string
}

type runCtx struct {
	info    *buildInfo
	scratch string
	prop    string
	tier    string
	seed    uint64
	known   string // comma separated violation classes listed as known findings for this property
	flaky   bool   // the tree has nondeterminism the simulator cannot own: replay attempts are repeated
}

func newRunCtx(info *buildInfo, prop, tier string, seed uint64) (*runCtx, error) {
	base := "/dev/shm"
	if _, err := os.Stat(base); err != nil {
		base = os.TempDir()
	}
	d, err := os.MkdirTemp(base, "verif-run-")
	if err != nil {
		return nil, err
	}
	rc := &runCtx{info: info, scratch: d, prop: prop, tier: tier, seed: seed}
	cleanups = append(cleanups, rc.cleanup)
	removeStaleScratch(base)
	return rc, nil
}

// removeStaleScratch deletes scratch directories of runs that ended without cleaning up
// (killed from outside) once they are older than six hours.
func removeStaleScratch(base string) {
	ents, err := os.ReadDir(base)
	if err != nil {
		return
	}
	for _, e := range ents {
		if !e.IsDir() || !(strings.HasPrefix(e.Name(), "verif-run-") || strings.HasPrefix(e.Name(), "verif-build-")) {
			continue
		}
		if fi, err := e.Info(); err == nil && time.Since(fi.ModTime()) > 6*time.Hour {
			os.RemoveAll(filepath.Join(base, e.Name()))
		}
	}
}

func (rc *runCtx) cleanup() { os.RemoveAll(rc.scratch) }

var jobCounter int
var jobMu sync.Mutex

// runJob runs one engine process and parses what it wrote.
func (rc *runCtx) runJob(ph phase, job Job, wallLimit time.Duration, worker int) workerOutcome {
	jobMu.Lock()
	jobCounter++
	n := jobCounter
	jobMu.Unlock()
	base := filepath.Join(rc.scratch, fmt.Sprintf("job%05d", n))
	job.Out = base + ".out"
	job.Scratch = base + ".d"
	os.MkdirAll(job.Scratch, 0o755)
	defer os.RemoveAll(job.Scratch)
	jb, _ := json.Marshal(job)
	os.WriteFile(base+".json", jb, 0o644)
	eb := engineBuilds[ph.Build]
	cmd := exec.Command(filepath.Join(rc.info.Dir, eb.name), "-test.run", ph.TestRun, "-test.timeout", "0", "-test.count", "1")
	cmd.Dir = job.Scratch
	env := append(os.Environ(), "VERIF_JOB="+base+".json", "GODEBUG=asynctimerchan=0", "GORACE=halt_on_error=1 exitcode=66")
	if ph.GoMaxProcs > 0 {
		env = append(env, "GOMAXPROCS="+strconv.Itoa(ph.GoMaxProcs))
	}
	env = append(env, ph.ExtraEnv...)
	cmd.Env = env
	var stderr bytes.Buffer
	cmd.Stdout = &stderr
	cmd.Stderr = &stderr
	res := workerOutcome{Worker: worker, OutPath: job.Out, DigestPath: job.Out + ".digests"}
	if err := cmd.Start(); err != nil {
		res.Exit = -1
		res.Stderr = err.Error()
		return res
	}
	done := make(chan error, 1)
	go func() { done <- cmd.Wait() }()
	select {
	case err := <-done:
		if err != nil {
			if ee, ok := err.(*exec.ExitError); ok {
				res.Exit = ee.ExitCode()
			} else {
				res.Exit = -1
			}
		}
	case <-time.After(wallLimit):
		cmd.Process.Kill()
		<-done
		res.Killed = true
		res.Exit = -2
	}
	if res.Exit == 5 {
		// the engine's own watchdog: no scheduler step for 25 s of real time (a hang)
		res.Killed = true
	}
	res.Stderr = tail(stderr.String(), 6000)
	if b, err := os.ReadFile(job.Out + ".log"); err == nil {
		res.RunLog = tail(string(b), 3000)
	}
	f, err := os.Open(job.Out)
	if err != nil {
		return res
	}
	defer f.Close()
	sc := bufio.NewScanner(f)
	sc.Buffer(make([]byte, 1<<20), 1<<28)
	for sc.Scan() {
		var m map[string]json.RawMessage
		if json.Unmarshal(sc.Bytes(), &m) != nil {
			continue
		}
		var t string
		json.Unmarshal(m["t"], &t)
		switch t {
		case "start":
			if s, ok := m["seed"]; ok {
				res.LastStart = "seed " + string(s)
				res.LastSeed, _ = strconv.ParseUint(string(s), 10, 64)
				res.HasLast = true
			} else if c, ok := m["cand"]; ok {
				res.LastStart = "cand " + string(c)
			}
		case "summary":
			var s Summary
			if err := json.Unmarshal(sc.Bytes(), &s); err == nil {
				res.Summary = &s
			}
		case "violation":
			res.Violation = m["replay"]
			json.Unmarshal(m["seed"], &res.ViolSeed)
		default:
			res.Lines = append(res.Lines, m)
		}
	}
	return res
}

func tail(s string, n int) string {
	if len(s) <= n {
		return s
	}
	return "..." + s[len(s)-n:]
}

// runPhase fans a phase out over its workers with disjoint seed ranges.
func (rc *runCtx) runPhase(ph phase) []workerOutcome {
	if ph.Workers <= 0 {
		ph.Workers = 16
	}
	if ph.SeedStride == 0 {
		ph.SeedStride = 10_000_000
	}
	base := rc.seed*1_000_000_000 + ph.SeedOffset
	outs := make([]workerOutcome, ph.Workers)
	var wg sync.WaitGroup
	for k := 0; k < ph.Workers; k++ {
		wg.Add(1)
		go func(k int) {
			defer wg.Done()
			lo := base + uint64(k)*ph.SeedStride
			hi := lo + ph.SeedStride
			if ph.MaxSeeds > 0 {
				hi = lo + ph.MaxSeeds
			}
			extra := map[string]string{}
			for k, v := range ph.Extra {
				extra[k] = v
			}
			if rc.known != "" {
				extra["known"] = rc.known
			}
			job := Job{Engine: ph.Engine, Property: rc.prop, Mix: ph.Mix, Mode: ph.Mode, Tier: rc.tier,
				SeedLo: lo, SeedHi: hi, BudgetS: ph.BudgetS, Samples: ph.Samples, Extra: extra}
			if k != 0 {
				job.Samples = 0
			}
			limit := time.Duration(ph.BudgetS*float64(time.Second)) + 180*time.Second
			if ph.BudgetS == 0 {
				limit = 30 * time.Minute
			}
			outs[k] = rc.runJob(ph, job, limit, k)
		}(k)
	}
	wg.Wait()
	return outs
}

// crashClass derives a stable class from what a dead engine process left behind.
func crashClass(o workerOutcome) (class, msg string) {
	text := o.Stderr
	switch {
	case strings.Contains(text, "WARNING: DATA RACE"):
		return "crash/data-race", raceSummary(text)
	case strings.Contains(text, "fatal error: all goroutines are asleep"):
		return "crash/go-deadlock", firstLines(text, "fatal error", 3)
	case strings.Contains(text, "fatal error: concurrent map"):
		return "crash/concurrent-map-access", firstLines(text, "fatal error", 3)
	case strings.Contains(text, "panic:"):
		l := firstLines(text, "panic:", 1)
		return "crash/panic:" + normalisePanic(l), firstLines(text, "panic:", 12)
	case strings.Contains(text, "fatal error:"):
		return "crash/fatal:" + normalisePanic(firstLines(text, "fatal error:", 1)), firstLines(text, "fatal error:", 8)
	}
	if o.Exit == 1 && strings.TrimSpace(o.RunLog) != "" {
		// log.Fatal*: the message is the last line of the run log
		ls := strings.Split(strings.TrimSpace(o.RunLog), "\n")
		last := ls[len(ls)-1]
		return "crash/log-fatal:" + normalisePanic(stripLogPrefix(last)), last
	}
	return fmt.Sprintf("crash/exit-%d", o.Exit), tail(text, 800)
}

func stripLogPrefix(l string) string {
	// "2000/01/01 00:00:00 message"
	if len(l) > 20 && l[4] == '/' && l[7] == '/' && l[10] == ' ' {
		return l[20:]
	}
	return l
}

// normalisePanic keeps the stable part of a message: letters only, numbers and
// addresses removed, truncated.
func normalisePanic(l string) string {
	l = strings.TrimSpace(strings.TrimPrefix(strings.TrimSpace(l), "panic:"))
	l = strings.TrimSpace(strings.TrimPrefix(l, "fatal error:"))
	var b strings.Builder
	lastDash := false
	for _, r := range l {
		ok := (r >= 'a' && r <= 'z') || (r >= 'A' && r <= 'Z')
		if ok {
			b.WriteRune(r)
			lastDash = false
		} else if !lastDash {
			b.WriteByte('-')
			lastDash = true
		}
		if b.Len() >= 60 {
			break
		}
	}
	return strings.Trim(b.String(), "-")
}

func firstLines(text, marker string, n int) string {
	i := strings.Index(text, marker)
	if i < 0 {
		return ""
	}
	ls := strings.SplitN(text[i:], "\n", n+1)
	if len(ls) > n {
		ls = ls[:n]
	}
	return strings.Join(ls, "\n")
}

func raceSummary(text string) string {
	i := strings.Index(text, "WARNING: DATA RACE")
	seg := text[i:]
	if j := strings.Index(seg, "=================="); j > 0 {
		seg = seg[:j]
	}
	var keep []string
	for _, l := range strings.Split(seg, "\n") {
		t := strings.TrimSpace(l)
		if strings.HasPrefix(t, "WARNING") || strings.HasPrefix(t, "Write at") || strings.HasPrefix(t, "Read at") ||
			strings.HasPrefix(t, "Previous") || strings.Contains(t, "/processing") || strings.Contains(t, "main.go") || strings.Contains(t, "texel/") {
			keep = append(keep, t)
		}
		if len(keep) > 14 {
			break
		}
	}
	return strings.Join(keep, " | ")
}

// ------------------------------------------------------------------------------------
// aggregation

type aggregate struct {
	Runs, NonTrivial, Steps, SimTimeMs int64
	Fired, Probes, Oracles, MapSites   Counter
	Samples                            []json.RawMessage
	SeedRanges                         []string
	Distinct                           int64
	WallS                              float64
	Notes                              []string
}

func newAggregate() *aggregate {
	return &aggregate{Fired: Counter{}, Probes: Counter{}, Oracles: Counter{}, MapSites: Counter{}}
}

func (a *aggregate) add(outs []workerOutcome) {
	digests := map[uint64]struct{}{}
	for _, o := range outs {
		s := o.Summary
		if s == nil {
			continue
		}
		a.Runs += s.Runs
		a.NonTrivial += s.NonTrivial
		a.Steps += s.Steps
		a.SimTimeMs += s.SimTimeMs
		a.Fired.Merge(s.Fired)
		a.Probes.Merge(s.Probes)
		a.Oracles.Merge(s.Oracles)
		a.MapSites.Merge(s.MapSites)
		a.Samples = append(a.Samples, s.Samples...)
		a.Notes = append(a.Notes, s.Notes...)
		if s.SeedNext > s.SeedLo {
			a.SeedRanges = append(a.SeedRanges, fmt.Sprintf("%d..%d", s.SeedLo, s.SeedNext-1))
		}
		if s.WallS > a.WallS {
			a.WallS = s.WallS
		}
		if b, err := os.ReadFile(o.DigestPath); err == nil {
			for i := 0; i+8 <= len(b); i += 8 {
				var d uint64
				for k := 0; k < 8; k++ {
					d |= uint64(b[i+k]) << (8 * k)
				}
				digests[d] = struct{}{}
			}
		}
	}
	a.Distinct += int64(len(digests))
	sort.Strings(a.SeedRanges)
}
